import ZI.Props.C07
import ZI.Props.C09Reg
import ZI.Props.C05Reg
import ZI.Props.C04Ext
/-! # C07 over all histories — `subscriptions()`: every live applicable subscriber, with multiplicity, in the documented order

Python code this is about (zope.interface `adapter.py`): `AdapterLookupBase._uncached_subscriptions(required, provided)` —
`for registry in reversed(self._registry.ro): byorder = registry._subscribers; … extendors = registry._v_lookup._extendors
.get(provided)` (resp. `(None,)` for `provided is None`), then the recursive `_subscriptions(byorder[order], required_ros,
extendors, '', result, 0, order)`, which walks every `__sro__` BACKWARDS, at the innermost level the extendors backwards,
and extends `result` by the tuple stored under each path — and the cached entry point `LookupBase.subscriptions`;
`BaseAdapterRegistry.subscribe` / `unsubscribe` (which file subscribers under `_subscribers[len(required)][required…][provided]['']`,
`unsubscribe` removing all entries `==` to the given value, or all).  Model: `ZI.Registry` (`subsRec`, `uncachedSubscriptions`,
`subscriptions`, `subscribe`, `unsubscribe`; not modified), histories `Op` / `step` / `run` / `WFHist` of `ZI.Props.C06`.  Built on
`C07.subsRec_eq_concat` (one container), `C09Reg` (the flat map `subsLeaf w r req prov` = the subscriber list filed under the key
`(registry, required.map convNone, provided)`), `C04Ext` (`ExtInv`: content / nodup / order of `_extendors`; `CountInv`: what is
stored is live), `C05Reg` (the `_scache` is transparent in the notifying flavour).

What is proved (all names in `ZI.Registry`; "any world" = no hypothesis at all, so both flavours and unreachable states too):

1. **Chain level** — `C07_chain` (any world): `uncachedSubscriptions w r req prov = ro.reverse.flatMap (regSubs w · req prov)`;
   `regSubs` = the per-registry answer (`[]` when the arity or the `_extendors` entry is missing).  Bases first.
2. **One registry, flat view** — `C07_regSubs_flat`, `C07_flat`, `C07_regSubs_keys` (any world): `regSubs w b req prov` is the
   concatenation of `subsLeaf w b q e` over the required parts `q ∈ sreqs w req` (walk order = reversed lexicographic;
   `c07_mem_sreqs`: exactly the `ReqOk` tuples) and the provided keys `e ∈ provKeys (w.reg b) prov` (`[None]` for handlers,
   `_extendors[p]` reversed otherwise).
3. **Membership / multiplicity** — `C07_count` (any world): `count v result = Σ_{b ∈ ro} Σ_{k ∈ appKeys b} count v (subsLeaf b k)`;
   `C07_appKeys_spec` (`ExtInv`): the key list is exactly {required part `ReqOk`, provided part `None` resp. live `e` with
   `p ∈ iro e`}, and is duplicate-free under the graph guards; `C07_mem_some` (`ExtInv`, `CountInv`; NO graph guard) /
   `C07_mem_none` (any world): `v` is returned iff it is filed in a registry of `ro` under an applicable key;
   `C07_multiplicity` (`ExtInv`, `CountInv`, `WLe`, guards `(sro s).Nodup` for the looked-up specs and `(iro p).Nodup`):
   `count v result = Σ_{b ∈ ro}` number of entries of `allSubscriptions()` of `b` with value `v` and an `applicable` key.
   The guards are needed: `c07_needs_sro_nodup`, `c07_needs_iro_nodup`.
4. **Order** — (a) `C07_order_chain`, `C07_order_own_last`: for `b1` before `b2` in `ro`, all of `b2`'s answer precedes all of
   `b1`'s; (b) `C07_order_required` (= `C07_order_first_position` on the flat view) and `C07_sreqs_order` (ALL positions: the
   required parts are walked in reversed lexicographic order — a part walked earlier is, at the first position where the two
   differ, listed LATER in that `__sro__`, i.e. less specific); `C07_provKeys_order` (bonus, guards of `C04_extendors_order`):
   under one required part the provided keys are walked most specific first; (c) within one key the list is `subsLeaf`, and
   `C07_leaf_history` (ALL histories from an empty world, either flavour, no guard): it equals `specLeaf`, the pure replay of the
   history's `subscribe` (append at the end) / `unsubscribe` (filter) / `newreg` (reset) operations on that key — re-basing,
   `rebuild()`, registrations, operations on other keys and queries do not touch it.  `C07_subscribe_history`.
5. **The `unsubscribe` clause** — state forms `C07_unsubscribe_removes` / `_keeps` / `_order` / `_all` / `_other` (any world),
   history form `C07_unsubscribe_history` (any start world): with a value no entry `==` to it (same `eqc`) remains under the key,
   every other entry of every key keeps its multiplicity and the survivors their order; without a value the key is empty and
   no other key changes.  On query RESULTS: `C07_unsubscribe_result` / `C07_hist_unsubscribe_result` (notifying flavour):
   the sub-list of entries not `==` to the removed value of EVERY `subscriptions()` answer is unchanged, order included — also
   when the removal drops the provided interface from `_extendors`.
6. **Reachable worlds, cached entry point, notifying flavour** (`WFHist` = C06's guards, needed only for cache transparency
   `C05_registry_transparent_subscriptions`): `C07_hist_flat` (the answer as a function of `ro`, the walk orders and the replayed
   history), `C07_hist_mem_some`, `C07_hist_mem_none`, `C07_hist_count`, `C07_hist_multiplicity`, `C07_hist_order_chain`.
   Either flavour, uncached walk: `C07_mem_some_any_flavour`; every "any world" statement above.

Non-vacuity: §9 (`c07Ops`: two registries, duplicated and `==` subscribers, a handler, a cached query followed by a further
subscription, an `unsubscribe` that empties a provided interface). -/
namespace ZI.Registry
open ZI.RO
local notation "Id" => Nat

/-! ## 1. chain level -/
/-- the extendors argument `_uncached_subscriptions` hands to the walk in one registry: `(None,)` for handlers
(`provided is None`), else `_extendors.get(provided)` (`none`: the registry is skipped) -/
def subsExt (x : Reg) (prov : Option Id) : Option (List K) :=
  match prov with
  | none => some [none]
  | some p => (AList.get? x.extendors p).map fun l => l.map some

/-- the answer of ONE registry `b` of the chain: the `_subscriptions` walk over its arity-`len(required)` container,
`[]` when it has no container of that arity or no `_extendors` entry for the provided interface -/
def regSubs (w : World) (b : Nat) (req : List Id) (prov : Option Id) : List Val :=
  if !((w.reg b).subs.any (·.order == req.length)) then [] else
  match subsExt (w.reg b) prov with
  | none => []
  | some ext => subsRec w req.length (getOrder ([] : List Val) (w.reg b).subs req.length) req ext []

theorem c07_chain_step (w : World) (req : List Id) (prov : Option Id) (acc : List Val) (b : Nat) :
    (let x := w.reg b
     let order := req.length
     if !(x.subs.any (·.order == order)) then acc else
     let ext : Option (List K) := match prov with
       | none => some [none]
       | some p => (AList.get? x.extendors p).map fun l => l.map some
     match ext with
     | none => acc
     | some ext => subsRec w order (getOrder ([] : List Val) x.subs order) req ext acc) = acc ++ regSubs w b req prov := by
  unfold regSubs subsExt
  simp only []
  split
  · simp
  · split
    · simp
    · rename_i ext h
      rw [subsRec_eq_concat w _ _ req ext acc rfl, subsRec_eq_concat w _ _ req ext [] rfl]
      simp

/-- **C07, chain level** (both flavours, any world): `_uncached_subscriptions` concatenates the per-registry answers,
walking the resolution order of the registry BACKWARDS — base registries (later in `ro`) first -/
theorem C07_chain (w : World) (r : Nat) (req : List Id) (prov : Option Id) :
    uncachedSubscriptions w r req prov = ((w.reg r).ro.reverse).flatMap (fun b => regSubs w b req prov) := by
  unfold uncachedSubscriptions
  refine (foldl_ext _ (fun acc b => acc ++ regSubs w b req prov) (fun acc b => c07_chain_step w req prov acc b) _ _).trans ?_
  rw [foldl_append_flatMap, List.nil_append]

/-! ## 2. one registry: the flat view -/
/-- the REQUIRED parts of the applicable paths in the order the walk visits them: every `__sro__` backwards, the first
position outermost (reversed lexicographic order) -/
def sreqs (w : World) : List Id → List (List Id)
  | [] => [[]]
  | s :: rest => (w.sro s).reverse.flatMap fun sp => (sreqs w rest).map fun q => sp :: q

/-- the PROVIDED keys the walk visits under each required part, in visiting order: `None` for handlers, else
`_extendors[provided]` backwards -/
def provKeys (x : Reg) (prov : Option Id) : List K :=
  match prov with
  | none => [none]
  | some p => ((look x.extendors p).reverse).map some

theorem c07_sreqs_length (w : World) : ∀ (specs : List Id) (q : List Id), q ∈ sreqs w specs → q.length = specs.length
  | [], q, h => by simp only [sreqs, List.mem_singleton] at h; rw [h]
  | s :: rest, q, h => by
    simp only [sreqs, List.mem_flatMap, List.mem_map] at h
    obtain ⟨sp, _, q', hq', rfl⟩ := h
    simp [c07_sreqs_length w rest q' hq']

/-- the enumeration is exactly the `ReqOk` tuples: position by position a member of the `__sro__` of the looked-up spec -/
theorem c07_mem_sreqs (w : World) : ∀ (specs : List Id) (q : List Id), q ∈ sreqs w specs ↔ ReqOk w q specs
  | [], q => by
    simp only [sreqs, List.mem_singleton]
    constructor
    · rintro rfl; exact ReqOk.nil
    · intro h; cases h; rfl
  | s :: rest, q => by
    simp only [sreqs, List.mem_flatMap, List.mem_map, List.mem_reverse]
    constructor
    · rintro ⟨sp, hsp, q', hq', rfl⟩
      exact ReqOk.cons hsp ((c07_mem_sreqs w rest q').mp hq')
    · intro h
      cases h with
      | cons hsp hf => exact ⟨_, hsp, _, (c07_mem_sreqs w rest _).mpr hf, rfl⟩

theorem c07_spaths_eq (w : World) (ext : List K) : ∀ (specs : List Id),
    spaths w specs ext = (sreqs w specs).flatMap fun q => ext.reverse.map fun e => q.map some ++ [e]
  | [] => by simp [spaths, sreqs]
  | s :: rest => by
    simp only [spaths, sreqs, c07_spaths_eq w ext rest, List.map_flatMap, List.flatMap_assoc, List.flatMap_map,
      List.map_map]
    rfl

theorem c07_flatMap_nil {α β} (l : List α) : l.flatMap (fun _ => ([] : List β)) = [] := by
  induction l <;> simp_all

theorem c07_sleaf_eq (w : World) (b : Nat) (q : List Id) (e : K) (n : Nat) (h : q.length = n) :
    sleaf n (getOrder ([] : List Val) (w.reg b).subs n) (q.map some ++ [e]) = subsLeaf w b (q.map some) e := by
  subst h
  unfold sleaf subsLeaf subsFind pathFind regPath
  rw [Ext.map_convNone_some, List.length_map]

theorem c07_provKeys_of_ext (x : Reg) (prov : Option Id) :
    provKeys x prov = match subsExt x prov with | none => [] | some ext => ext.reverse := by
  unfold provKeys subsExt look
  cases prov with
  | none => rfl
  | some p =>
    simp only []
    cases AList.get? x.extendors p with
    | none => rfl
    | some l => simp

/-- **C07, one registry, flat view** (both flavours, any world, no hypothesis): the answer of registry `b` is the
concatenation of the subscription leaves `subsLeaf w b q e` (C09Reg's flat map: the subscribers filed under the key
`(b, q, e)`, in subscription order) over the required parts `q` in walk order (`sreqs`: reversed lexicographic order of
the positions in the `__sro__`s) and, under each, the provided keys `e` in walk order (`provKeys`).  The missing-arity and
missing-`_extendors`-entry cases need no side condition: all leaves of a missing arity are `[]`, and a missing entry means
no provided key is visited. -/
theorem C07_regSubs_flat (w : World) (b : Nat) (req : List Id) (prov : Option Id) :
    regSubs w b req prov =
      (sreqs w req).flatMap fun q => (provKeys (w.reg b) prov).flatMap fun e => subsLeaf w b (q.map some) e := by
  unfold regSubs
  split
  · rename_i hno
    have h0 : ∀ q ∈ sreqs w req, ((provKeys (w.reg b) prov).flatMap fun e => subsLeaf w b (q.map some) e) = [] := by
      intro q hq
      have : ∀ e, subsLeaf w b (q.map some) e = [] := by
        intro e
        unfold subsLeaf
        rw [subsFind_none_of_no_order w b (q.map some) e (by rw [List.length_map, c07_sreqs_length w req q hq]; exact hno)]
        rfl
      simp only [this]; exact c07_flatMap_nil _
    rw [flatMap_congr_mem (g := fun _ => []) h0, c07_flatMap_nil]
  · rw [c07_provKeys_of_ext]
    split
    · simp only [List.flatMap_nil]; exact (c07_flatMap_nil _).symm
    · rename_i ext _
      rw [C07_multiset w _ _ req ext rfl, c07_spaths_eq, List.flatMap_assoc]
      apply flatMap_congr_mem
      intro q hq
      rw [List.flatMap_map]
      apply flatMap_congr_mem
      intro e _
      exact c07_sleaf_eq w b q e _ (c07_sreqs_length w req q hq)

/-- **C07, whole chain, flat view**: chain level and registry level combined -/
theorem C07_flat (w : World) (r : Nat) (req : List Id) (prov : Option Id) :
    uncachedSubscriptions w r req prov =
      ((w.reg r).ro.reverse).flatMap fun b => (sreqs w req).flatMap fun q =>
        (provKeys (w.reg b) prov).flatMap fun e => subsLeaf w b (q.map some) e := by
  rw [C07_chain]
  apply flatMap_congr_mem
  intro b _
  exact C07_regSubs_flat w b req prov

/-! ## 3. membership and multiplicity -/
/-- the keys `(required part, provided key)` of registry `b` that `subscriptions(req, prov)` reads, in walk order -/
def appKeys (w : World) (b : Nat) (req : List Id) (prov : Option Id) : List (List K × K) :=
  (sreqs w req).flatMap fun q => (provKeys (w.reg b) prov).map fun e => (q.map some, e)

/-- the per-registry answer as a concatenation over its key list -/
theorem C07_regSubs_keys (w : World) (b : Nat) (req : List Id) (prov : Option Id) :
    regSubs w b req prov = (appKeys w b req prov).flatMap fun k => subsLeaf w b k.1 k.2 := by
  rw [C07_regSubs_flat]
  unfold appKeys
  rw [List.flatMap_assoc]
  apply flatMap_congr_mem
  intro q _
  rw [List.flatMap_map]

/-- **C07, multiplicity — raw form** (both flavours, any world, no hypothesis): a subscriber occurs in the result as
often as it occurs in the leaves of the keys read, summed over the registries of `ro` and their key lists -/
theorem C07_count (w : World) (r : Nat) (req : List Id) (prov : Option Id) (v : Val) :
    (uncachedSubscriptions w r req prov).count v =
      ((w.reg r).ro.map fun b => ((appKeys w b req prov).map fun k => (subsLeaf w b k.1 k.2).count v).sum).sum := by
  rw [C07_chain, List.count_flatMap, List.map_reverse, List.sum_reverse]
  congr 1
  apply List.map_congr_left
  intro b _
  show (regSubs w b req prov).count v = _
  rw [C07_regSubs_keys, List.count_flatMap]
  rfl

/-- which provided keys are read for `provided = p`: exactly the LIVE provided interfaces `e` (those with an entry in
`_provided`) with `p ∈ e.__iro__` — `C04_extendors_content` -/
theorem c07_mem_provKeys_some {w : World} (hE : ExtInv w) (b : Nat) (p : Id) (k : K) :
    k ∈ provKeys (w.reg b) (some p) ↔
      ∃ e, k = some e ∧ (AList.get? (w.reg b).provided e).isSome = true ∧ p ∈ w.iro e := by
  unfold provKeys
  simp only [List.mem_map, List.mem_reverse]
  constructor
  · rintro ⟨e, he, rfl⟩
    exact ⟨e, rfl, ((hE b).content p e).mp he⟩
  · rintro ⟨e, rfl, he⟩
    exact ⟨e, ((hE b).content p e).mpr he, rfl⟩

theorem c07_mem_provKeys_none (x : Reg) (k : K) : k ∈ provKeys x none ↔ k = none := by
  simp [provKeys]

/-- stored ⇒ live: a subscriber filed under the provided interface `e` keeps `e` in `_provided` (`C04_count_ge`) -/
theorem c07_live_of_leaf {w : World} (hC : CountInv w) (b : Nat) (req : List (Option Id)) (e : Id) (v : Val)
    (hv : v ∈ subsLeaf w b req (some e)) : (AList.get? (w.reg b).provided e).isSome = true := by
  have hb : Bound (w.reg b) e (.sub req.length (req.map convNone ++ [some e]) 0) := by
    refine ⟨Ext.path_len req _, Ext.path_last req _, ?_⟩
    unfold subsLeaf subsFind pathFind regPath at hv
    unfold subLeaf
    cases hf : Level.find (req.length+1) (getOrder ([] : List Val) (w.reg b).subs req.length) (req.map convNone ++ [some e]) with
    | none => rw [hf] at hv; simp at hv
    | some vs =>
      rw [hf] at hv
      refine ⟨vs, rfl, ?_⟩
      cases vs with
      | nil => simp at hv
      | cons _ _ => simp
  have := hC b e [_] (by simp) (fun t ht => by rw [List.mem_singleton] at ht; subst ht; exact hb)
  apply Ext.getD_ne_zero_isSome
  simp at this; omega

/-- **C07, membership, `provided = p`** (state form; `ExtInv`, `CountInv` hold after every history of either flavour —
`C04_extInv_any_flavour`, `C04_count_ge_any_flavour`): `v` is returned iff it is filed, in some registry of the
resolution order, under a key whose required part is position-wise in the `__sro__` of the looked-up specs (`ReqOk`) and
whose provided interface `e` is or extends `p` (`p ∈ e.__iro__`).  No graph guard.  The two invariants are needed in this
state form — `ExtInv` for `→` (everything listed in `_extendors[p]` extends `p`), `ExtInv` + `CountInv` for `←` (a stored
subscriber's provided interface is listed): `c07_needs_invariants` (§9) is a hand-made, unreachable record with a stored
subscriber and an empty `_extendors` table.  The history forms `C07_hist_mem_some` / `C07_mem_some_any_flavour` have no such
hypothesis. -/
theorem C07_mem_some {w : World} (hE : ExtInv w) (hC : CountInv w) (r : Nat) (req : List Id) (p : Id) (v : Val) :
    v ∈ uncachedSubscriptions w r req (some p) ↔
      ∃ b ∈ (w.reg r).ro, ∃ q e, ReqOk w q req ∧ p ∈ w.iro e ∧ v ∈ subsLeaf w b (q.map some) (some e) := by
  rw [C07_flat]
  simp only [List.mem_flatMap, List.mem_reverse]
  constructor
  · rintro ⟨b, hb, q, hq, k, hk, hv⟩
    obtain ⟨e, rfl, _, hp⟩ := (c07_mem_provKeys_some hE b p k).mp hk
    exact ⟨b, hb, q, e, (c07_mem_sreqs w req q).mp hq, hp, hv⟩
  · rintro ⟨b, hb, q, e, hq, hp, hv⟩
    exact ⟨b, hb, q, (c07_mem_sreqs w req q).mpr hq, some e,
      (c07_mem_provKeys_some hE b p _).mpr ⟨e, rfl, c07_live_of_leaf hC b _ e v hv, hp⟩, hv⟩

/-- **C07, membership, handlers (`provided=None`)** (both flavours, any world, no hypothesis): exactly the handler
lists `(q, None)` -/
theorem C07_mem_none (w : World) (r : Nat) (req : List Id) (v : Val) :
    v ∈ uncachedSubscriptions w r req none ↔
      ∃ b ∈ (w.reg r).ro, ∃ q, ReqOk w q req ∧ v ∈ subsLeaf w b (q.map some) none := by
  rw [C07_flat]
  simp only [List.mem_flatMap, List.mem_reverse, c07_mem_provKeys_none]
  constructor
  · rintro ⟨b, hb, q, hq, k, rfl, hv⟩
    exact ⟨b, hb, q, (c07_mem_sreqs w req q).mp hq, hv⟩
  · rintro ⟨b, hb, q, hq, hv⟩
    exact ⟨b, hb, q, (c07_mem_sreqs w req q).mpr hq, none, rfl, hv⟩

/-! ### no key is read twice; the multiplicity over the enumerations -/
theorem c07_nodup_flatMap_map {α β γ} (l : List α) (m : α → List β) (f : α → β → γ) (hl : l.Nodup)
    (hm : ∀ a ∈ l, (m a).Nodup) (hinj : ∀ a a' b b', f a b = f a' b' → a = a' ∧ b = b') :
    (l.flatMap fun a => (m a).map (f a)).Nodup := by
  unfold List.Nodup at hl ⊢
  rw [List.pairwise_flatMap]
  refine ⟨fun a ha => ?_, hl.imp ?_⟩
  · rw [List.pairwise_map]
    exact (hm a ha).imp (fun hne e => hne (hinj _ _ _ _ e).2)
  · intro a a' hne x hx y hy e
    obtain ⟨b, _, rfl⟩ := List.mem_map.mp hx
    obtain ⟨b', _, rfl⟩ := List.mem_map.mp hy
    exact hne (hinj _ _ _ _ e).1

theorem c07_nodup_reverse {α} {l : List α} (h : l.Nodup) : l.reverse.Nodup := by
  unfold List.Nodup at h ⊢
  rw [List.pairwise_reverse]
  exact h.imp (fun hne e => hne e.symm)

theorem c07_sreqs_nodup (w : World) : ∀ (specs : List Id), (∀ s ∈ specs, (w.sro s).Nodup) → (sreqs w specs).Nodup
  | [], _ => by simp [sreqs]
  | s :: rest, h => by
    unfold sreqs
    refine c07_nodup_flatMap_map _ (fun _ => sreqs w rest) (fun sp q => sp :: q)
      (c07_nodup_reverse (h s (List.mem_cons_self ..)))
      (fun _ _ => c07_sreqs_nodup w rest (fun s' hs' => h s' (List.mem_cons_of_mem _ hs'))) ?_
    intro a a' b b' e
    exact List.cons.inj e

theorem c07_provKeys_nodup {w : World} (hE : ExtInv w) (hI : ∀ p, (w.iro p).Nodup) (b : Nat) (prov : Option Id) :
    (provKeys (w.reg b) prov).Nodup := by
  unfold provKeys
  cases prov with
  | none => simp
  | some p =>
    simp only []
    have := c07_nodup_reverse ((hE b).nodup hI p)
    unfold List.Nodup at this ⊢
    rw [List.pairwise_map]
    exact this.imp (fun hne e => hne (Option.some.inj e))

theorem c07_appKeys_nodup {w : World} (hE : ExtInv w) (req : List Id) (hS : ∀ s ∈ req, (w.sro s).Nodup)
    (hI : ∀ p, (w.iro p).Nodup) (b : Nat) (prov : Option Id) : (appKeys w b req prov).Nodup := by
  unfold appKeys
  refine c07_nodup_flatMap_map _ (fun _ => provKeys (w.reg b) prov) (fun q e => (q.map some, e))
    (c07_sreqs_nodup w req hS) (fun _ _ => c07_provKeys_nodup hE hI b prov) ?_
  intro a a' e e' h
  have := Prod.mk.inj h
  exact ⟨(List.map_inj_right (fun _ _ => Option.some.inj)).mp this.1, this.2⟩
theorem c07_countP_or {τ} (p q : τ → Bool) (L : List τ) (h : ∀ t ∈ L, ¬ (p t = true ∧ q t = true)) :
    L.countP (fun t => p t || q t) = L.countP p + L.countP q := by
  induction L with
  | nil => rfl
  | cons a L ih =>
    have ha := h a (List.mem_cons_self ..)
    have := ih (fun t ht => h t (List.mem_cons_of_mem _ ht))
    simp only [List.countP_cons, this]
    cases hp : p a <;> cases hq : q a <;> simp_all <;> omega

theorem c07_sum_countP {κ τ} [BEq κ] [LawfulBEq κ] (keys : List κ) (hnd : keys.Nodup) (g : τ → κ) (P : τ → Bool) (L : List τ) :
    (keys.map fun k => L.countP (fun t => g t == k && P t)).sum = L.countP (fun t => keys.contains (g t) && P t) := by
  induction keys with
  | nil => simp
  | cons k ks ih =>
    rw [List.map_cons, List.sum_cons, ih (List.nodup_cons.mp hnd).2]
    have : (fun t => (k :: ks).contains (g t) && P t) = fun t => (g t == k && P t) || (ks.contains (g t) && P t) := by
      funext t
      rw [List.contains_cons]; cases (g t == k) <;> cases (ks.contains (g t)) <;> cases P t <;> rfl
    rw [this, c07_countP_or]
    intro t _ ⟨h1, h2⟩
    simp only [Bool.and_eq_true, beq_iff_eq, List.contains_iff_mem] at h1 h2
    exact (List.nodup_cons.mp hnd).1 (h1.1 ▸ h2.1)

/-- Boolean form of "`reqK` is `q.map some` for a `ReqOk` tuple `q`": a stored required key path is applicable to the
looked-up specs -/
def reqOkB (w : World) : List K → List Id → Bool
  | [], [] => true
  | some k :: ks, s :: ss => (w.sro s).contains k && reqOkB w ks ss
  | _, _ => false

theorem c07_reqOkB_iff (w : World) : ∀ (reqK : List K) (specs : List Id),
    reqOkB w reqK specs = true ↔ ∃ q, reqK = q.map some ∧ ReqOk w q specs
  | [], [] => by simp only [reqOkB, true_iff]; exact ⟨[], rfl, ReqOk.nil⟩
  | [], _ :: _ => by
    simp only [reqOkB, Bool.false_eq_true, false_iff]
    rintro ⟨q, hq, h⟩
    cases h; simp at hq
  | none :: ks, specs => by
    have : reqOkB w (none :: ks) specs = false := by cases specs <;> rfl
    simp only [this, Bool.false_eq_true, false_iff]
    rintro ⟨q, hq, _⟩
    cases q <;> simp at hq
  | some k :: ks, [] => by
    simp only [reqOkB, Bool.false_eq_true, false_iff]
    rintro ⟨q, hq, h⟩
    cases h; simp at hq
  | some k :: ks, s :: ss => by
    simp only [reqOkB, Bool.and_eq_true, List.contains_iff_mem, c07_reqOkB_iff w ks ss]
    constructor
    · rintro ⟨hk, q, rfl, hq⟩
      exact ⟨k :: q, rfl, ReqOk.cons hk hq⟩
    · rintro ⟨q, hq, h⟩
      cases h with
      | cons hk hq' =>
        simp only [List.map_cons, List.cons.injEq, Option.some.injEq] at hq
        obtain ⟨rfl, rfl⟩ := hq
        exact ⟨hk, _, rfl, hq'⟩

/-- is the STORED key `(reqK, provK)` applicable to the query `subscriptions(req, prov)`?  Required part position-wise
in the `__sro__` of the looked-up specs; provided part: `None` for handlers, else an interface that is or extends the
requested one (`p ∈ e.__iro__`) -/
def applicable (w : World) (req : List Id) (prov : Option Id) (reqK : List K) (provK : K) : Bool :=
  reqOkB w reqK req && (match prov, provK with
    | none, none => true
    | some p, some e => (w.iro e).contains p
    | _, _ => false)

theorem c07_mem_appKeys (w : World) (b : Nat) (req : List Id) (prov : Option Id) (reqK : List K) (provK : K) :
    (reqK, provK) ∈ appKeys w b req prov ↔ reqOkB w reqK req = true ∧ provK ∈ provKeys (w.reg b) prov := by
  unfold appKeys
  simp only [List.mem_flatMap, List.mem_map, Prod.mk.injEq, c07_reqOkB_iff, c07_mem_sreqs]
  constructor
  · rintro ⟨q, hq, e, he, rfl, rfl⟩
    exact ⟨⟨q, rfl, hq⟩, he⟩
  · rintro ⟨⟨q, rfl, hq⟩, he⟩
    exact ⟨q, hq, provK, he, rfl, rfl⟩

/-- the leaf of a key as a count over the enumeration `allSubscriptions()` -/
theorem c07_count_leaf (x : Reg) (h : RegWF x) (reqK : List K) (provK : K) (v : Val) :
    (subsLeafK x reqK provK).count v =
      (allSubscriptions x).countP (fun t => (t.1, t.2.1) == (reqK, provK) && t.2.2 == v) := by
  rw [← allSubscriptions_leaf x h reqK provK, List.count_eq_countP, List.countP_map, List.countP_filter]
  apply List.countP_congr
  intro t _
  simp only [Function.comp, keyIs, Bool.and_eq_true, beq_iff_eq, Prod.mk.injEq]
  exact ⟨fun ⟨a, b, c⟩ => ⟨⟨b, c⟩, a⟩, fun ⟨⟨b, c⟩, a⟩ => ⟨a, b, c⟩⟩

/-- **C07, multiplicity** (state form): a subscriber `v` occurs in the result of `subscriptions(req, prov)` exactly as
often as the enumerations `allSubscriptions()` of the registries of the resolution order yield it under an applicable key.

Hypotheses: `ExtInv`, `CountInv`, `WLe` hold after every history (C04Ext, C09Reg; `C07_hist_multiplicity` is the history form
without them).  They are needed in the state form: `ExtInv` / `CountInv` as for `C07_mem_some`; `WLe` (unique keys in every
dict — Python dicts have them, the model's association lists need not) because `allSubscriptions()` would enumerate a shadowed
duplicate key that no walk reads (see `mem_allRegistrations_iff`).  Graph guards: `(w.sro s).Nodup` for the
looked-up specs — with `sro 5 = [1, 1]` a subscriber filed under `1` is returned twice by `subscriptions([5], …)`, the walk
visits the key twice (`c07_needs_sro_nodup` below) —; `(w.iro p).Nodup` — with `iro 1 = [0, 0]` the table holds
`_extendors[0] = [1, 1]` (`nodup_needs_iro_nodup` of C04Ext) and the provided key `1` is visited twice. -/
theorem C07_multiplicity {w : World} (hE : ExtInv w) (hC : CountInv w) (hW : WLe w) (r : Nat) (req : List Id)
    (prov : Option Id) (hS : ∀ s ∈ req, (w.sro s).Nodup) (hI : ∀ p, (w.iro p).Nodup) (v : Val) :
    (uncachedSubscriptions w r req prov).count v =
      ((w.reg r).ro.map fun b =>
        (allSubscriptions (w.reg b)).countP fun t => applicable w req prov t.1 t.2.1 && t.2.2 == v).sum := by
  rw [C07_count]
  congr 1
  apply List.map_congr_left
  intro b _
  have hwf := (hW b).wf
  have hkeys := (hW b).keys
  have h1 : ((appKeys w b req prov).map fun k => (subsLeaf w b k.1 k.2).count v) =
      (appKeys w b req prov).map fun k =>
        (allSubscriptions (w.reg b)).countP (fun t => (t.1, t.2.1) == k && t.2.2 == v) := by
    apply List.map_congr_left
    intro k hk
    obtain ⟨reqK, provK⟩ := k
    obtain ⟨q, rfl, _⟩ := (c07_reqOkB_iff w reqK req).mp ((c07_mem_appKeys w b req prov reqK provK).mp hk).1
    rw [subsLeaf_eq_K, Ext.map_convNone_some, c07_count_leaf _ hwf]
  rw [h1, c07_sum_countP _ (c07_appKeys_nodup hE req hS hI b prov)]
  apply List.countP_congr
  intro t ht
  obtain ⟨reqK, provK, u⟩ := t
  simp only [Bool.and_eq_true, List.contains_iff_mem, beq_iff_eq, c07_mem_appKeys]
  refine and_congr_left (fun hu => ?_)
  subst hu
  unfold applicable
  rw [Bool.and_eq_true]
  refine and_congr_right (fun _ => ?_)
  cases prov with
  | none => cases provK <;> simp [c07_mem_provKeys_none]
  | some p =>
    rw [c07_mem_provKeys_some hE]
    cases provK with
    | none => simp
    | some e =>
      have hc := mem_allSubscriptions_conv _ hwf hkeys _ ht
      have hleaf : u ∈ subsLeaf w b reqK (some e) := by
        rw [subsLeaf_eq_K]
        simp only at hc
        rw [hc]
        have := ht
        rw [allSubscriptions_eq, mem_enumAll_iff (fun _ => True) _ (orders_sort_nodup _ hwf.sorders)
          (fun b hb => hwf.strees b ((mem_sort_iff _ b).mp hb)), pathFind_sort _ _ hwf.sorders] at this
        exact this
      have hlive := c07_live_of_leaf hC b reqK e u hleaf
      simp [hlive]


/-- **C07, which keys are read, each once** (state form; `ExtInv` holds after every history): the key list of registry
`b` for the query `subscriptions(req, prov)` consists exactly of the keys whose required part is position-wise in the
`__sro__` of the looked-up specs and whose provided part is `None` (handlers) resp. a LIVE provided interface `e` of `b`
with `p ∈ e.__iro__`; under the graph guards no key is listed twice.  Together with `C07_count` this is the multiplicity
statement as a sum over keys: `count v result = Σ_{b ∈ ro} Σ_{k ∈ appKeys b} count v (subsLeaf b k)`.  (A stored key is
live — `c07_live_of_leaf` —, so every stored applicable key is in the list; a live key without subscribers, e.g. one kept
alive by an adapter registration, contributes the empty list.) -/
theorem C07_appKeys_spec {w : World} (hE : ExtInv w) (b : Nat) (req : List Id) (prov : Option Id) :
    (∀ reqK provK, (reqK, provK) ∈ appKeys w b req prov ↔
      (∃ q, reqK = q.map some ∧ ReqOk w q req) ∧
      (match prov with
       | none => provK = none
       | some p => ∃ e, provK = some e ∧ (AList.get? (w.reg b).provided e).isSome = true ∧ p ∈ w.iro e)) ∧
    ((∀ s ∈ req, (w.sro s).Nodup) → (∀ p, (w.iro p).Nodup) → (appKeys w b req prov).Nodup) := by
  refine ⟨fun reqK provK => ?_, fun hS hI => c07_appKeys_nodup hE req hS hI b prov⟩
  rw [c07_mem_appKeys, c07_reqOkB_iff]
  refine and_congr_right (fun _ => ?_)
  cases prov with
  | none => exact c07_mem_provKeys_none _ _
  | some p => exact c07_mem_provKeys_some hE b p provK

/-! ## 4. order -/
/-- **C07, order (a): base registries before derived ones.**  If `b1` is listed before `b2` in the resolution order of
`r`, the whole answer of `b2` precedes the whole answer of `b1` (both flavours, any world) -/
theorem C07_order_chain (w : World) (r : Nat) (req : List Id) (prov : Option Id) (l1 l2 l3 : List Nat) (b1 b2 : Nat)
    (hro : (w.reg r).ro = l1 ++ b1 :: l2 ++ b2 :: l3) :
    uncachedSubscriptions w r req prov =
      (l3.reverse.flatMap fun b => regSubs w b req prov) ++ regSubs w b2 req prov ++
      (l2.reverse.flatMap fun b => regSubs w b req prov) ++ regSubs w b1 req prov ++
      (l1.reverse.flatMap fun b => regSubs w b req prov) := by
  rw [C07_chain, hro]
  simp only [List.reverse_append, List.reverse_cons, List.flatMap_append, List.flatMap_cons,
    List.nil_append, List.append_assoc, List.cons_append]

/-- the own registry's subscribers come last -/
theorem C07_order_own_last (w : World) (r : Nat) (req : List Id) (prov : Option Id) (b : Nat) (rest : List Nat)
    (hro : (w.reg r).ro = b :: rest) :
    uncachedSubscriptions w r req prov = (rest.reverse.flatMap fun b => regSubs w b req prov) ++ regSubs w b req prov := by
  rw [C07_chain, hro]
  simp

/-- the block of one registry's answer reached through the key `sp` in the FIRST required position -/
def reqBlock (w : World) (b : Nat) (rest : List Id) (prov : Option Id) (sp : Id) : List Val :=
  (sreqs w rest).flatMap fun q => (provKeys (w.reg b) prov).flatMap fun e => subsLeaf w b ((sp :: q).map some) e

/-- **C07, order (b): less specific required specifications first** — `C07_order_first_position` on the flat view: the
subscribers reached through a LATER element of the first looked-up specification's `__sro__` precede those reached
through an earlier one (and inside each block the same holds for the next position: `reqBlock` is again a walk over
`sreqs w rest`) -/
theorem C07_order_required (w : World) (b : Nat) (s : Id) (rest : List Id) (prov : Option Id) (l1 l2 : List Id) (a : Id)
    (hs : w.sro s = l1 ++ a :: l2) :
    regSubs w b (s :: rest) prov =
      (l2.reverse.flatMap (reqBlock w b rest prov)) ++ reqBlock w b rest prov a ++ (l1.reverse.flatMap (reqBlock w b rest prov)) := by
  rw [C07_regSubs_flat]
  unfold reqBlock
  simp only [sreqs, hs, List.reverse_append, List.reverse_cons, List.flatMap_append, List.flatMap_cons, List.flatMap_nil,
    List.append_nil, List.flatMap_assoc, List.flatMap_map, List.append_assoc]

/-- "`q1` is walked before `q2`" can only be for this reason: at the first position where they differ, the entry of `q1` is
listed AFTER the entry of `q2` in the `__sro__` of the looked-up spec (it is less specific) -/
inductive LessSpecific (w : World) : List Id → List Id → List Id → Prop
  | here {s specs a1 a2 q1 q2} : [a2, a1].Sublist (w.sro s) → LessSpecific w (s :: specs) (a1 :: q1) (a2 :: q2)
  | there {s specs a q1 q2} : LessSpecific w specs q1 q2 → LessSpecific w (s :: specs) (a :: q1) (a :: q2)

/-- **order (b), all positions**: the required parts are walked in reversed lexicographic order -/
theorem C07_sreqs_order (w : World) : ∀ (specs : List Id), (sreqs w specs).Pairwise (LessSpecific w specs)
  | [] => by simp [sreqs]
  | s :: rest => by
    unfold sreqs
    rw [List.pairwise_flatMap]
    constructor
    · intro sp _
      rw [List.pairwise_map]
      exact (C07_sreqs_order w rest).imp (fun h => LessSpecific.there h)
    · rw [List.pairwise_reverse]
      have : (w.sro s).Pairwise (fun a b => [a, b].Sublist (w.sro s)) :=
        List.pairwise_iff_forall_sublist.mpr (fun h => h)
      refine this.imp ?_
      intro a a' hsub x hx y hy
      obtain ⟨q, _, rfl⟩ := List.mem_map.mp hx
      obtain ⟨q', _, rfl⟩ := List.mem_map.mp hy
      exact LessSpecific.here hsub


/-- the provided keys are walked most specific first: a key walked later never strictly extends one walked earlier
(guards as for `C04_extendors_order`) -/
theorem C07_provKeys_order {w : World} (hE : ExtInv w) (hT : SroTrans w.sro) (hA : SroAntisymm w.sro) (b : Nat) (p : Id) :
    (provKeys (w.reg b) (some p)).Pairwise
      (fun k1 k2 => ∀ e1 e2, k1 = some e1 → k2 = some e2 → ¬ (e2 ≠ e1 ∧ e1 ∈ w.sro e2)) := by
  unfold provKeys
  simp only []
  rw [List.pairwise_map, List.pairwise_reverse]
  refine ((hE b).order hT hA p).imp ?_
  intro a a' h e1 e2 h1 h2
  cases h1; cases h2
  exact h

/-! ## 5. one key through a history -/
/-- what one operation does to the subscriber list filed under the key `(r, reqK, prov)` — a pure list function:
`subscribe` under that key appends, `unsubscribe` under that key removes all entries `==` to the value given (all
entries when none is given), creating the registry anew empties it, nothing else (re-basing, `rebuild()`, registrations,
operations on other keys, queries) touches it -/
def leafStep (r : Nat) (reqK : List K) (prov : Option Id) (acc : List Val) : Op → List Val
  | .newreg r' _ => if r' = r then [] else acc
  | .subscribe r' req' prov' v => if r' = r ∧ req'.map convNone = reqK ∧ prov' = prov then acc ++ [v] else acc
  | .unsubscribe r' req' prov' v => if r' = r ∧ req'.map convNone = reqK ∧ prov' = prov then unsubLeaf v acc else acc
  | _ => acc

/-- the subscriber list of a key as a function of the history alone -/
def specLeaf (r : Nat) (reqK : List K) (prov : Option Id) (ops : List Op) : List Val :=
  ops.foldl (leafStep r reqK prov) []

theorem c07_subsLeaf_of_subs {w w' : World} {r : Nat} (h : (w'.reg r).subs = (w.reg r).subs)
    (req : List (Option Id)) (prov : Option Id) : subsLeaf w' r req prov = subsLeaf w r req prov := by
  unfold subsLeaf; rw [subsFind_of_dataEq h]

theorem c07_subsLeaf_step (fuel : Nat) (w : World) (hW : WLe w) (op : Op) (r : Nat) (req : List (Option Id)) (prov : Option Id) :
    subsLeaf (step fuel w op) r req prov = leafStep r (req.map convNone) prov (subsLeaf w r req prov) op := by
  cases op with
  | newreg r' bs =>
    show subsLeaf (setBases fuel (w.setReg r' {}) r' bs) r req prov = if r' = r then [] else subsLeaf w r req prov
    rw [c07_subsLeaf_of_subs ((setBases_sameData fuel (w.setReg r' {}) r' bs).subs r)]
    by_cases h : r' = r
    · subst h
      rw [if_pos rfl]
      unfold subsLeaf subsFind
      rw [reg_setReg_same, pathFind_of_not_mem _ _ _ _ (by simp [orders])]
      rfl
    · rw [if_neg h]
      exact c07_subsLeaf_of_subs (by rw [reg_setReg_ne _ (fun e => h e.symm)]) req prov
  | setBases r' bs => exact c07_subsLeaf_of_subs ((setBases_sameData fuel w r' bs).subs r) req prov
  | rebuild r' => exact C09_rebuild_subsLeaf fuel w r' (hW r').wf (hW r').keys r req prov
  | register r' req' p n v => show subsLeaf (register fuel w r' req' p n v) r req prov = _; unfold subsLeaf; rw [subsFind_register]; rfl
  | unregister r' req' p n v => show subsLeaf (unregister fuel w r' req' p n v) r req prov = _; unfold subsLeaf; rw [subsFind_unregister]; rfl
  | subscribe r' req' p v =>
    show subsLeaf (subscribe fuel w r' req' p v) r req prov = _
    rw [subsLeaf_subscribe]
    show _ = if r' = r ∧ req'.map convNone = req.map convNone ∧ p = prov then subsLeaf w r req prov ++ [v] else subsLeaf w r req prov
    by_cases h : r = r' ∧ req.map convNone = req'.map convNone ∧ prov = p
    · obtain ⟨h1, h2, h3⟩ := h
      subst h1 h3
      rw [if_pos ⟨rfl, h2, rfl⟩, if_pos ⟨rfl, h2.symm, rfl⟩]
      unfold subsLeaf; rw [subsFind_congr w r req' req prov h2]
    · rw [if_neg h, if_neg (fun ⟨a, b, c⟩ => h ⟨a.symm, b.symm, c.symm⟩)]
  | unsubscribe r' req' p v =>
    show subsLeaf (unsubscribe fuel w r' req' p v) r req prov = _
    rw [subsLeaf_unsubscribe]
    show _ = if r' = r ∧ req'.map convNone = req.map convNone ∧ p = prov then unsubLeaf v (subsLeaf w r req prov) else subsLeaf w r req prov
    by_cases h : r = r' ∧ req.map convNone = req'.map convNone ∧ prov = p
    · obtain ⟨h1, h2, h3⟩ := h
      subst h1 h3
      rw [if_pos ⟨rfl, h2, rfl⟩, if_pos ⟨rfl, h2.symm, rfl⟩]
      unfold subsLeaf; rw [subsFind_congr w r req' req prov h2]
    · rw [if_neg h, if_neg (fun ⟨a, b, c⟩ => h ⟨a.symm, b.symm, c.symm⟩)]
  | lookup r' req' p n => exact c07_subsLeaf_of_subs ((lookup_sameData w r' req' p n).subs r) req prov
  | lookupAll r' req' p => exact c07_subsLeaf_of_subs ((lookupAll_sameData w r' req' p).subs r) req prov
  | subscriptions r' req' p => exact c07_subsLeaf_of_subs ((subscriptions_sameData w r' req' p).subs r) req prov

theorem c07_subsLeaf_run (fuel : Nat) : ∀ (ops : List Op) (w : World), WLe w → ∀ (r : Nat) (req : List (Option Id)) (prov : Option Id),
    subsLeaf (run fuel w ops) r req prov = ops.foldl (leafStep r (req.map convNone) prov) (subsLeaf w r req prov)
  | [], _, _, _, _, _ => rfl
  | op :: ops, w, hW, r, req, prov => by
    show subsLeaf (run fuel (step fuel w op) ops) r req prov = _
    rw [c07_subsLeaf_run fuel ops _ (step_wle fuel w hW op), c07_subsLeaf_step fuel w hW]
    rfl

theorem c07_wle_of_no_regs (w : World) (h : w.regs = []) : WLe w := fun r => by
  rw [Ext.reg_of_no_regs w h r]; exact regInv_empty.le

/-- **C07, within one key (c) — all histories, both flavours, no guard**: after ANY history from an empty world the
subscribers filed under a key are exactly what the pure replay of the history's `subscribe` / `unsubscribe` operations on
that key leaves: in subscription order, a subscriber as often as it was subscribed since the last `unsubscribe` that
matched it -/
theorem C07_leaf_history (fuel : Nat) (w0 : World) (h0 : w0.regs = []) (ops : List Op) (r : Nat) (req : List (Option Id))
    (prov : Option Id) :
    subsLeaf (run fuel w0 ops) r req prov = specLeaf r (req.map convNone) prov ops := by
  rw [c07_subsLeaf_run fuel ops w0 (c07_wle_of_no_regs w0 h0)]
  unfold specLeaf
  congr 1
  unfold subsLeaf subsFind
  rw [Ext.reg_of_no_regs w0 h0 r, pathFind_of_not_mem _ _ _ _ (by simp [orders])]
  rfl


/-! ## 6. the `unsubscribe` clause -/
theorem c07_unsubLeaf_some (v : Val) (old : List Val) : unsubLeaf (some v) old = old.filter fun u => u.eqc != v.eqc := rfl

/-- after `unsubscribe(required, provided, v)` no entry `==` to `v` is left under that key (any world, both flavours) -/
theorem C07_unsubscribe_removes (fuel : Nat) (w : World) (r : Nat) (req : List (Option Id)) (prov : Option Id) (v : Val) :
    ∀ u ∈ subsLeaf (unsubscribe fuel w r req prov (some v)) r req prov, u.eqc ≠ v.eqc := by
  intro u hu
  rw [subsLeaf_unsubscribe, if_pos ⟨rfl, rfl, rfl⟩, c07_unsubLeaf_some] at hu
  simpa using (List.mem_filter.mp hu).2

/-- … and every other entry of every key keeps its multiplicity: entries under other keys (other registry, other
required part up to the `None` conversion, other provided key) and entries under the same key that are not `==` to `v` -/
theorem C07_unsubscribe_keeps (fuel : Nat) (w : World) (r : Nat) (req : List (Option Id)) (prov : Option Id) (v : Val)
    (r' : Nat) (req' : List (Option Id)) (prov' : Option Id) (u : Val)
    (h : ¬ (r' = r ∧ req'.map convNone = req.map convNone ∧ prov' = prov) ∨ u.eqc ≠ v.eqc) :
    (subsLeaf (unsubscribe fuel w r req prov (some v)) r' req' prov').count u = (subsLeaf w r' req' prov').count u := by
  rw [subsLeaf_unsubscribe]
  by_cases hk : r' = r ∧ req'.map convNone = req.map convNone ∧ prov' = prov
  · rw [if_pos hk]
    have hu : u.eqc ≠ v.eqc := h.resolve_left (fun h' => h' hk)
    obtain ⟨h1, h2, h3⟩ := hk
    subst h1 h3
    have : subsLeaf w r' req' prov' = subsLeaf w r' req prov' := by unfold subsLeaf; rw [subsFind_congr w r' req req' prov' h2]
    rw [this, c07_unsubLeaf_some, List.count_filter (by simpa using hu)]
  · rw [if_neg hk]

/-- the survivors keep their relative (subscription) order; other keys are literally unchanged -/
theorem C07_unsubscribe_order (fuel : Nat) (w : World) (r : Nat) (req : List (Option Id)) (prov : Option Id) (vo : Option Val)
    (r' : Nat) (req' : List (Option Id)) (prov' : Option Id) :
    (subsLeaf (unsubscribe fuel w r req prov vo) r' req' prov').Sublist (subsLeaf w r' req' prov') := by
  rw [subsLeaf_unsubscribe]
  by_cases hk : r' = r ∧ req'.map convNone = req.map convNone ∧ prov' = prov
  · rw [if_pos hk]
    obtain ⟨h1, h2, h3⟩ := hk
    subst h1 h3
    have : subsLeaf w r' req' prov' = subsLeaf w r' req prov' := by unfold subsLeaf; rw [subsFind_congr w r' req req' prov' h2]
    rw [this]
    cases vo with
    | none => exact List.nil_sublist _
    | some v => exact List.filter_sublist
  · rw [if_neg hk]; exact List.Sublist.refl _

/-- `unsubscribe(required, provided)` without a value empties the key -/
theorem C07_unsubscribe_all (fuel : Nat) (w : World) (r : Nat) (req : List (Option Id)) (prov : Option Id) :
    subsLeaf (unsubscribe fuel w r req prov none) r req prov = [] := by
  rw [subsLeaf_unsubscribe, if_pos ⟨rfl, rfl, rfl⟩]; rfl

/-- … and (with or without a value) leaves every other key as it was -/
theorem C07_unsubscribe_other (fuel : Nat) (w : World) (r : Nat) (req : List (Option Id)) (prov : Option Id) (vo : Option Val)
    (r' : Nat) (req' : List (Option Id)) (prov' : Option Id)
    (h : ¬ (r' = r ∧ req'.map convNone = req.map convNone ∧ prov' = prov)) :
    subsLeaf (unsubscribe fuel w r req prov vo) r' req' prov' = subsLeaf w r' req' prov' := by
  rw [subsLeaf_unsubscribe, if_neg h]

theorem c07_run_append (fuel : Nat) : ∀ (ops ops' : List Op) (w : World), run fuel w (ops ++ ops') = run fuel (run fuel w ops) ops'
  | [], _, _ => rfl
  | op :: ops, ops', w => c07_run_append fuel ops ops' (step fuel w op)

theorem c07_run_snoc (fuel : Nat) (ops : List Op) (op : Op) (w : World) : run fuel w (ops ++ [op]) = step fuel (run fuel w ops) op := by
  rw [c07_run_append]; rfl

/-- **C07, the `unsubscribe` clause, history form** (any history, any start world, both flavours): appending
`unsubscribe(r, req, prov, v)` to a history leaves no entry `==` to `v` under that key, keeps the multiplicity of every
other entry of every key and the relative order of all survivors; appending `unsubscribe(r, req, prov)` empties the key and
changes no other key -/
theorem C07_unsubscribe_history (fuel : Nat) (w0 : World) (ops : List Op) (r : Nat) (req : List (Option Id)) (prov : Option Id) :
    (∀ v, (∀ u ∈ subsLeaf (run fuel w0 (ops ++ [.unsubscribe r req prov (some v)])) r req prov, u.eqc ≠ v.eqc) ∧
      (∀ r' req' prov' u, (¬ (r' = r ∧ req'.map convNone = req.map convNone ∧ prov' = prov) ∨ u.eqc ≠ v.eqc) →
        (subsLeaf (run fuel w0 (ops ++ [.unsubscribe r req prov (some v)])) r' req' prov').count u =
          (subsLeaf (run fuel w0 ops) r' req' prov').count u)) ∧
    subsLeaf (run fuel w0 (ops ++ [.unsubscribe r req prov none])) r req prov = [] ∧
    (∀ vo r' req' prov',
      (subsLeaf (run fuel w0 (ops ++ [.unsubscribe r req prov vo])) r' req' prov').Sublist (subsLeaf (run fuel w0 ops) r' req' prov') ∧
      (¬ (r' = r ∧ req'.map convNone = req.map convNone ∧ prov' = prov) →
        subsLeaf (run fuel w0 (ops ++ [.unsubscribe r req prov vo])) r' req' prov' = subsLeaf (run fuel w0 ops) r' req' prov')) := by
  simp only [c07_run_snoc]
  exact ⟨fun v => ⟨C07_unsubscribe_removes fuel _ r req prov v, fun r' req' prov' u h => C07_unsubscribe_keeps fuel _ r req prov v r' req' prov' u h⟩,
    C07_unsubscribe_all fuel _ r req prov,
    fun vo r' req' prov' => ⟨C07_unsubscribe_order fuel _ r req prov vo r' req' prov', C07_unsubscribe_other fuel _ r req prov vo r' req' prov'⟩⟩

/-- `subscribe`, history form: the new subscriber goes to the END of its key (subscription order), every other key is unchanged -/
theorem C07_subscribe_history (fuel : Nat) (w0 : World) (ops : List Op) (r : Nat) (req : List (Option Id)) (prov : Option Id) (v : Val) :
    subsLeaf (run fuel w0 (ops ++ [.subscribe r req prov v])) r req prov = subsLeaf (run fuel w0 ops) r req prov ++ [v] ∧
    (∀ r' req' prov', ¬ (r' = r ∧ req'.map convNone = req.map convNone ∧ prov' = prov) →
      subsLeaf (run fuel w0 (ops ++ [.subscribe r req prov v])) r' req' prov' = subsLeaf (run fuel w0 ops) r' req' prov') := by
  simp only [c07_run_snoc]
  refine ⟨?_, fun r' req' prov' h => ?_⟩
  · show subsLeaf (subscribe fuel _ r req prov v) r req prov = _
    rw [subsLeaf_subscribe, if_pos ⟨rfl, rfl, rfl⟩]
  · show subsLeaf (subscribe fuel _ r req prov v) r' req' prov' = _
    rw [subsLeaf_subscribe, if_neg h]


/-! ## 7. reachable worlds -/
section Hist
variable (fuel : Nat) (sro iro : Id → List Id) (ops : List Op)
local notation "W" => run fuel (emptyPush sro iro) ops

/-- **C07 over all histories, flat form** (notifying flavour): after any well-formed history (C06's guards: a new registry
is new, re-basings keep the base graph acyclic) the cached entry point `subscriptions(required, provided)` returns the
concatenation, over the registries of `ro` backwards (bases first), over the applicable required parts in walk order, over
the provided keys in walk order, of the subscriber lists — and each of those lists is the pure replay of the history on its
key (`specLeaf`).  `WFHist` is needed (here and in the other `C07_hist_…` theorems) only because the CACHED entry point is
stated: without C06's guards a stale `_scache` entry can be returned (C05Reg: `shallowOps`, `renewOps`); the statements about
`uncachedSubscriptions` (`C07_flat`, `C07_mem_some_any_flavour`, …) need no guard.  `(W.reg r).ro` is, for an existing registry,
the C3 order of the current base graph: `C06_ro`. -/
theorem C07_hist_flat (hwf : WFHist fuel (emptyPush sro iro) ops) (r : Nat) (req : List Id) (prov : Option Id) :
    (subscriptions W r req prov).2 =
      (((W).reg r).ro.reverse).flatMap fun b => (sreqs W req).flatMap fun q =>
        (provKeys ((W).reg b) prov).flatMap fun e => specLeaf b (q.map some) e ops := by
  rw [C05_registry_transparent_subscriptions fuel sro iro ops hwf, C07_flat]
  apply flatMap_congr_mem; intro b _
  apply flatMap_congr_mem; intro q _
  apply flatMap_congr_mem; intro e _
  rw [C07_leaf_history fuel _ rfl, Ext.map_convNone_some]

/-- **C07 over all histories, membership** (`provided = p`) -/
theorem C07_hist_mem_some (hwf : WFHist fuel (emptyPush sro iro) ops) (r : Nat) (req : List Id) (p : Id) (v : Val) :
    v ∈ (subscriptions W r req (some p)).2 ↔
      ∃ b ∈ ((W).reg r).ro, ∃ q e, ReqOk W q req ∧ p ∈ iro e ∧ v ∈ subsLeaf W b (q.map some) (some e) := by
  rw [C05_registry_transparent_subscriptions fuel sro iro ops hwf,
    C07_mem_some (C04_extInv fuel sro iro ops) (C04_count_ge fuel sro iro ops), run_iro]

/-- **C07 over all histories, membership** (handlers, `provided=None`) -/
theorem C07_hist_mem_none (hwf : WFHist fuel (emptyPush sro iro) ops) (r : Nat) (req : List Id) (v : Val) :
    v ∈ (subscriptions W r req none).2 ↔ ∃ b ∈ ((W).reg r).ro, ∃ q, ReqOk W q req ∧ v ∈ subsLeaf W b (q.map some) none := by
  rw [C05_registry_transparent_subscriptions fuel sro iro ops hwf, C07_mem_none]

/-- **C07 over all histories, multiplicity as a sum over the keys read** (no graph guard): `v` is returned as often as the
replayed history leaves it under the keys read (`C07_appKeys_spec`: the applicable live keys, each once under the graph
guards), summed over the registries of `ro` -/
theorem C07_hist_count (hwf : WFHist fuel (emptyPush sro iro) ops) (r : Nat) (req : List Id) (prov : Option Id) (v : Val) :
    ((subscriptions W r req prov).2).count v =
      (((W).reg r).ro.map fun b => ((appKeys W b req prov).map fun k => (specLeaf b k.1 k.2 ops).count v).sum).sum := by
  rw [C05_registry_transparent_subscriptions fuel sro iro ops hwf, C07_count]
  congr 1
  apply List.map_congr_left; intro b _
  congr 1
  apply List.map_congr_left; intro k hk
  obtain ⟨reqK, provK⟩ := k
  obtain ⟨q, rfl, _⟩ := (c07_reqOkB_iff _ reqK req).mp ((c07_mem_appKeys _ b req prov reqK provK).mp hk).1
  rw [C07_leaf_history fuel _ rfl, Ext.map_convNone_some]

/-- **C07 over all histories, multiplicity**: `v` is returned exactly as often as the `allSubscriptions()` enumerations of
the registries of `ro` yield it under an applicable key.  Guards: see `C07_multiplicity`. -/
theorem C07_hist_multiplicity (hwf : WFHist fuel (emptyPush sro iro) ops) (r : Nat) (req : List Id) (prov : Option Id)
    (hS : ∀ s ∈ req, (sro s).Nodup) (hI : ∀ p, (iro p).Nodup) (v : Val) :
    ((subscriptions W r req prov).2).count v =
      (((W).reg r).ro.map fun b =>
        (allSubscriptions ((W).reg b)).countP fun t => applicable W req prov t.1 t.2.1 && t.2.2 == v).sum := by
  rw [C05_registry_transparent_subscriptions fuel sro iro ops hwf]
  exact C07_multiplicity (C04_extInv fuel sro iro ops) (C04_count_ge fuel sro iro ops)
    (run_wle fuel ops _ (winv_empty sro iro).le) r req prov (by rw [run_sro]; exact hS) (by rw [run_iro]; exact hI) v

/-- **C07 over all histories, order (a)** -/
theorem C07_hist_order_chain (hwf : WFHist fuel (emptyPush sro iro) ops) (r : Nat) (req : List Id) (prov : Option Id)
    (l1 l2 l3 : List Nat) (b1 b2 : Nat) (hro : ((W).reg r).ro = l1 ++ b1 :: l2 ++ b2 :: l3) :
    (subscriptions W r req prov).2 =
      (l3.reverse.flatMap fun b => regSubs W b req prov) ++ regSubs W b2 req prov ++
      (l2.reverse.flatMap fun b => regSubs W b req prov) ++ regSubs W b1 req prov ++
      (l1.reverse.flatMap fun b => regSubs W b req prov) := by
  rw [C05_registry_transparent_subscriptions fuel sro iro ops hwf]
  exact C07_order_chain _ r req prov l1 l2 l3 b1 b2 hro

end Hist

/-- the uncached walk, either flavour (any start world without registries): membership -/
theorem C07_mem_some_any_flavour (fuel : Nat) (w0 : World) (h0 : w0.regs = []) (ops : List Op) (r : Nat) (req : List Id) (p : Id) (v : Val) :
    v ∈ uncachedSubscriptions (run fuel w0 ops) r req (some p) ↔
      ∃ b ∈ ((run fuel w0 ops).reg r).ro, ∃ q e, ReqOk (run fuel w0 ops) q req ∧ p ∈ (run fuel w0 ops).iro e ∧
        v ∈ subsLeaf (run fuel w0 ops) b (q.map some) (some e) :=
  C07_mem_some (C04_extInv_any_flavour fuel w0 h0 ops) (C04_count_ge_any_flavour fuel w0 h0 ops) r req p v


/-! ## 8. the `unsubscribe` clause on the RESULTS of `subscriptions()` -/
theorem c07_unsubscribeReg_extendors (w : World) (x : Reg) (req : List (Option Id)) (prov : Option Id) (old new : List Val) :
    (unsubscribeReg w x req prov old new).extendors =
      match prov with
      | none => x.extendors
      | some p =>
        if (AList.get? x.provided p).getD 0 + new.length - old.length = 0 then updAll (delExt p) (w.iro p) x.extendors
        else x.extendors := by
  cases prov with
  | none => rfl
  | some p =>
    unfold unsubscribeReg; simp only []
    by_cases h : (AList.get? x.provided p).getD 0 + new.length - old.length = 0
    · rw [if_pos (by simpa using h), if_pos h]; rfl
    · rw [if_neg (by simpa using h), if_neg h]

theorem c07_iter_delExt (p0 : Id) : ∀ (n : Nat) (l : List Id), Ext.iter (delExt p0) n l = if n = 0 then l else delExt p0 l
  | 0, l => rfl
  | n+1, l => by
    show Ext.iter (delExt p0) n (delExt p0 l) = _
    rw [c07_iter_delExt p0 n, if_neg (Nat.succ_ne_zero n)]
    split
    · rfl
    · unfold delExt; rw [List.filter_filter]; simp

theorem c07_provKeys_congr {x y : Reg} (h : y.extendors = x.extendors) (prov : Option Id) : provKeys y prov = provKeys x prov := by
  unfold provKeys; rw [h]

/-- what `unsubscribe` does to the provided keys a query reads in registry `b`: nothing, or — when the last reference to
the provided interface `p0` went away — `p0` is dropped from them, and then `p0` has no `_provided` entry any more -/
theorem c07_unsub_provKeys (fuel : Nat) (w : World) (r : Nat) (req : List (Option Id)) (prov : Option Id) (vo : Option Val)
    (b : Nat) (prov0 : Option Id) :
    provKeys ((unsubscribe fuel w r req prov vo).reg b) prov0 = provKeys (w.reg b) prov0 ∨
    ∃ p0, provKeys ((unsubscribe fuel w r req prov vo).reg b) prov0 = (provKeys (w.reg b) prov0).filter (fun k => k != some p0) ∧
      AList.get? ((unsubscribe fuel w r req prov vo).reg b).provided p0 = none := by
  rw [unsubscribe_eq]
  split
  · exact Or.inl rfl
  · split
    · exact Or.inl rfl
    · rename_i old _
      split
      · exact Or.inl rfl
      · split
        · exact Or.inl rfl
        · by_cases hb : b = r
          · subst hb
            have hd := mut_data_same fuel w b (unsubscribeReg w (w.reg b) req prov old (unsubLeaf vo old))
            have hext := c07_unsubscribeReg_extendors w (w.reg b) req prov old (unsubLeaf vo old)
            have hprov := unsubscribeReg_provided w (w.reg b) req prov old (unsubLeaf vo old)
            rw [hd.provided]
            cases prov with
            | none => exact Or.inl (c07_provKeys_congr (hd.extendors.trans hext) prov0)
            | some p0 =>
              simp only [] at hext hprov
              by_cases hz : (AList.get? (w.reg b).provided p0).getD 0 + (unsubLeaf vo old).length - old.length = 0
              · rw [if_pos hz] at hext hprov
                cases prov0 with
                | none => exact Or.inl rfl
                | some p =>
                  have hl : look ((changed fuel (w.setReg b (unsubscribeReg w (w.reg b) (req) (some p0) old (unsubLeaf vo old))) b).reg b).extendors p =
                      if (w.iro p0).count p = 0 then look (w.reg b).extendors p else delExt p0 (look (w.reg b).extendors p) := by
                    rw [hd.extendors, hext, look_updAll, c07_iter_delExt]
                  by_cases hc : (w.iro p0).count p = 0
                  · left
                    rw [if_pos hc] at hl
                    unfold provKeys
                    simp only []
                    rw [hl]
                  · right
                    rw [if_neg hc] at hl
                    refine ⟨p0, ?_, by rw [hprov, aget_erase, if_pos rfl]⟩
                    unfold provKeys
                    simp only []
                    rw [hl]
                    unfold delExt
                    rw [List.filter_map, List.filter_reverse]
                    congr 2
              · rw [if_neg hz] at hext
                exact Or.inl (c07_provKeys_congr (hd.extendors.trans hext) prov0)
          · exact Or.inl (c07_provKeys_congr (mut_data_ne fuel w r _ hb).extendors prov0)

theorem c07_filter_flatMap_eq {α β} (g : α → Bool) (f : α → List β) (l : List α) (h : ∀ a ∈ l, g a = false → f a = []) :
    (l.filter g).flatMap f = l.flatMap f := by
  induction l with
  | nil => rfl
  | cons a l ih =>
    have ih' := ih (fun x hx => h x (List.mem_cons_of_mem _ hx))
    rw [List.filter_cons]
    cases hg : g a with
    | true => simp [ih']
    | false => simp [ih', h a (List.mem_cons_self ..) hg]

/-- nothing is stored under a provided interface without a `_provided` entry -/
theorem c07_leaf_nil_of_dead {w : World} (hC : CountInv w) (b : Nat) (req : List (Option Id)) (e : Id)
    (h : AList.get? (w.reg b).provided e = none) : subsLeaf w b req (some e) = [] := by
  cases hl : subsLeaf w b req (some e) with
  | nil => rfl
  | cons u t =>
    have := c07_live_of_leaf hC b req e u (by rw [hl]; exact List.mem_cons_self ..)
    rw [h] at this; cases this

/-- on every key, the entries not `==` to `v` are the same list before and after `unsubscribe(…, v)` -/
theorem c07_unsub_leaf_filter (fuel : Nat) (w : World) (r : Nat) (req : List (Option Id)) (prov : Option Id) (v : Val)
    (r' : Nat) (req' : List (Option Id)) (prov' : Option Id) :
    (subsLeaf (unsubscribe fuel w r req prov (some v)) r' req' prov').filter (fun u => u.eqc != v.eqc) =
      (subsLeaf w r' req' prov').filter (fun u => u.eqc != v.eqc) := by
  rw [subsLeaf_unsubscribe]
  split
  · rename_i hk
    obtain ⟨h1, h2, h3⟩ := hk
    subst h1 h3
    have : subsLeaf w r' req' prov' = subsLeaf w r' req prov' := by unfold subsLeaf; rw [subsFind_congr w r' req req' prov' h2]
    rw [this, c07_unsubLeaf_some, List.filter_filter]
    simp
  · rfl

/-- **C07, the `unsubscribe` clause on query results** (notifying flavour; `CountInv` holds after every history): removing
the subscriber `v` from a key changes the answer of NO query `subscriptions(req0, prov0)` on any registry `r0` except for
entries `==` to `v`: the sub-list of the entries not `==` to `v` is the same list, order included — also when the removal
drops the provided interface from `_extendors`.  Hypotheses: `verifying = false` — in the generation-checking flavour the
change notification `unsubscribe` issues also re-derives a stale `ro` of `r` from the base graph, so a query on `r` itself may
walk other registries afterwards; `CountInv` (holds after every history, `C04_count_ge`) — in a hand-made record whose
`_provided[p]` under-counts, the removal would drop `p` from `_extendors` while another subscriber providing `p` is still
stored, and that one would vanish from the answers. -/
theorem C07_unsubscribe_result (fuel : Nat) {w : World} (hv : w.verifying = false) (hC : CountInv w) (r : Nat)
    (req : List (Option Id)) (prov : Option Id) (v : Val) (r0 : Nat) (req0 : List Id) (prov0 : Option Id) :
    (uncachedSubscriptions (unsubscribe fuel w r req prov (some v)) r0 req0 prov0).filter (fun u => u.eqc != v.eqc) =
      (uncachedSubscriptions w r0 req0 prov0).filter (fun u => u.eqc != v.eqc) := by
  have hC' := unsubscribe_countInv fuel hC r req prov (some v)
  have hsro : sreqs (unsubscribe fuel w r req prov (some v)) req0 = sreqs w req0 := by
    have := (unsubscribe_sameGraph fuel w r req prov (some v)).sro
    generalize unsubscribe fuel w r req prov (some v) = w' at this
    induction req0 with
    | nil => rfl
    | cons s rest ih => simp only [sreqs, this, ih]
  rw [C07_flat, C07_flat, (unsubscribe_sameStr fuel w hv r req prov (some v)).ro r0, hsro]
  simp only [List.filter_flatMap]
  apply flatMap_congr_mem; intro b _
  apply flatMap_congr_mem; intro q _
  simp only [c07_unsub_leaf_filter]
  rcases c07_unsub_provKeys fuel w r req prov (some v) b prov0 with h | ⟨p0, h, hdead⟩
  · rw [h]
  · rw [h]
    apply c07_filter_flatMap_eq
    intro k _ hk
    have : k = some p0 := by simpa using hk
    subst this
    rw [← c07_unsub_leaf_filter fuel w r req prov v, c07_leaf_nil_of_dead hC' b _ p0 hdead]
    rfl


theorem c07_wfHist_snoc (fuel : Nat) : ∀ (ops : List Op) (op : Op) (w : World), WFHist fuel w ops → WF fuel (run fuel w ops) op →
    WFHist fuel w (ops ++ [op])
  | [], _, _, _, h => ⟨h, trivial⟩
  | o :: ops, op, w, h, h' => ⟨h.1, c07_wfHist_snoc fuel ops op (step fuel w o) h.2 h'⟩

/-- **the `unsubscribe` clause on query results, history form** (notifying flavour, cached entry point): appending
`unsubscribe(r, req, prov, v)` to any well-formed history changes the answer of no query except for entries `==` to `v` -/
theorem C07_hist_unsubscribe_result (fuel : Nat) (sro iro : Id → List Id) (ops : List Op)
    (hwf : WFHist fuel (emptyPush sro iro) ops) (r : Nat) (req : List (Option Id)) (prov : Option Id) (v : Val)
    (r0 : Nat) (req0 : List Id) (prov0 : Option Id) :
    ((subscriptions (run fuel (emptyPush sro iro) (ops ++ [.unsubscribe r req prov (some v)])) r0 req0 prov0).2).filter
        (fun u => u.eqc != v.eqc) =
      ((subscriptions (run fuel (emptyPush sro iro) ops) r0 req0 prov0).2).filter (fun u => u.eqc != v.eqc) := by
  rw [C05_registry_transparent_subscriptions fuel sro iro _ (c07_wfHist_snoc fuel ops (.unsubscribe r req prov (some v)) _ hwf trivial),
    C05_registry_transparent_subscriptions fuel sro iro ops hwf, c07_run_snoc]
  exact C07_unsubscribe_result fuel (run_inv fuel ops [] _ (inv_empty fuel sro iro) hwf).verifying
    (C04_count_ge fuel sro iro ops) r req prov v r0 req0 prov0

/-! ## 9. non-vacuity: a concrete history; the guards are needed -/
/-- two registries, `1` below `0`, over the diamond `D(B, C)`, `B(A)`, `C(A)` (4, 2, 3, 1; `Interface` = 0).  In the base
registry three subscribers for `(A) → B`, two of them the same object and all three `==`; one for `(B) → A`; in the derived
registry one for `(B) → D` and a handler for `(A)`; then a (cached) query, and a subscription after it -/
def c07Ops : List Op := [.newreg 0 [], .newreg 1 [0],
  .subscribe 0 [some 1] (some 2) ⟨10, 1⟩, .subscribe 0 [some 1] (some 2) ⟨11, 1⟩, .subscribe 0 [some 1] (some 2) ⟨10, 1⟩,
  .subscribe 1 [some 2] (some 4) ⟨20, 2⟩, .subscribe 0 [some 2] (some 1) ⟨30, 3⟩, .subscribe 1 [some 1] none ⟨40, 4⟩,
  .subscriptions 1 [2] (some 1), .subscribe 1 [some 0] (some 1) ⟨50, 5⟩]

theorem c07_wf : WFHist 8 diamondWorld c07Ops := by
  refine ⟨⟨⟨rfl, rfl, rfl⟩, ?_⟩, ⟨⟨rfl, rfl, rfl⟩, ?_⟩, trivial, trivial, trivial, trivial, trivial, trivial, trivial, trivial, trivial⟩
  · exact goodBases_check 8 2 (by decide) (by decide) _ _ (fun s hs => updB_far _ 0 [] 2 (by decide) s hs) (by decide +kernel) (by decide +kernel)
  · exact goodBases_check 8 2 (by decide) (by decide) _ _ (fun s hs => updB_far _ 1 [0] 2 (by decide) s hs) (by decide +kernel) (by decide +kernel)

/-- what the query `subscriptions([B], A)` through the derived registry returns after that history (by evaluation): the
base registry's subscribers first — under the less specific required key `A` before `B`, the duplicates kept, in
subscription order —, then the derived registry's (the late one, under `Interface`, before the one under `B`) -/
theorem c07_demo : (subscriptions (run 8 diamondWorld c07Ops) 1 [2] (some 1)).2 =
    [⟨10, 1⟩, ⟨11, 1⟩, ⟨10, 1⟩, ⟨30, 3⟩, ⟨50, 5⟩, ⟨20, 2⟩] := by decide +kernel

example := C07_hist_flat 8 diamondSro diamondIro c07Ops c07_wf 1 [2] (some 1)
example := C07_hist_mem_some 8 diamondSro diamondIro c07Ops c07_wf 1 [2] 1 ⟨10, 1⟩
example := C07_hist_mem_none 8 diamondSro diamondIro c07Ops c07_wf 1 [2] ⟨40, 4⟩
/-- the guards of the multiplicity theorem hold here; it says `⟨10, 1⟩` is returned twice -/
example : ((subscriptions (run 8 diamondWorld c07Ops) 1 [2] (some 1)).2).count ⟨10, 1⟩ = 2 := by rw [c07_demo]; decide
example := C07_hist_count 8 diamondSro diamondIro c07Ops c07_wf 1 [2] (some 1) ⟨10, 1⟩
example := C07_hist_multiplicity 8 diamondSro diamondIro c07Ops c07_wf 1 [2] (some 1) (by decide) diamond_ok.iro_nodup ⟨10, 1⟩
/-- order (a): `ro` of the derived registry is `[1, 0]` -/
example := C07_hist_order_chain 8 diamondSro diamondIro c07Ops c07_wf 1 [2] (some 1) [] [] [] 1 0 (by decide +kernel)
example : regSubs (run 8 diamondWorld c07Ops) 0 [2] (some 1) = [⟨10, 1⟩, ⟨11, 1⟩, ⟨10, 1⟩, ⟨30, 3⟩] ∧
    regSubs (run 8 diamondWorld c07Ops) 1 [2] (some 1) = [⟨50, 5⟩, ⟨20, 2⟩] := by decide +kernel
/-- order (b): `B.__sro__ = [] ++ B :: [A, Interface]` -/
example := C07_order_required (run 8 diamondWorld c07Ops) 0 2 [] (some 1) [] [1, 0] 2 (by rw [(run_sameGraph 8 c07Ops diamondWorld).sro]; rfl)
/-- (c): the leaf of `(0, (A), B)` is the replay of the history on that key -/
example : specLeaf 0 [some 1] (some 2) c07Ops = [⟨10, 1⟩, ⟨11, 1⟩, ⟨10, 1⟩] := by decide
example := C07_leaf_history 8 diamondWorld rfl c07Ops 0 [some 1] (some 2)
/-- the `unsubscribe` clause on this history: removing by an `==` value removes all three entries of the key (and, the
count of `B` reaching 0, `B` from the extendors); the rest of the answer is unchanged -/
example : (subscriptions (run 8 diamondWorld (c07Ops ++ [.unsubscribe 0 [some 1] (some 2) (some ⟨99, 1⟩)])) 1 [2] (some 1)).2 =
    [⟨30, 3⟩, ⟨50, 5⟩, ⟨20, 2⟩] := by decide +kernel
example := C07_unsubscribe_history 8 diamondWorld c07Ops 0 [some 1] (some 2)
example := C07_hist_unsubscribe_result 8 diamondSro diamondIro c07Ops c07_wf 0 [some 1] (some 2) ⟨99, 1⟩ 1 [2] (some 1)
/-- the hypotheses of the state-level theorems on the world this history reaches -/
example := C07_mem_some (C04_extInv 8 diamondSro diamondIro c07Ops) (C04_count_ge 8 _ _ c07Ops) 1 [2] 1 ⟨10, 1⟩
example := C07_multiplicity (C04_extInv 8 diamondSro diamondIro c07Ops) (C04_count_ge 8 _ _ c07Ops) (run_wle 8 c07Ops _ (winv_empty _ _).le) 1 [2] (some 1)
  (by rw [run_sro]; decide) (by rw [run_iro]; exact diamond_ok.iro_nodup) ⟨10, 1⟩
example := (C07_appKeys_spec (C04_extInv 8 diamondSro diamondIro c07Ops) 0 [2] (some 1)).2
  (by rw [run_sro]; decide) (by rw [run_iro]; exact diamond_ok.iro_nodup)
example : appKeys (run 8 diamondWorld c07Ops) 0 [2] (some 1) =
    [([some 0], some 2), ([some 0], some 1), ([some 1], some 2), ([some 1], some 1), ([some 2], some 2), ([some 2], some 1)] := by
  decide +kernel
example := C07_provKeys_order (C04_extInv 8 diamondSro diamondIro c07Ops) (by rw [run_sro]; exact diamond_ok.trans)
  (by rw [run_sro]; exact diamond_ok.antisymm) 0 1
example := C07_order_own_last (run 8 diamondWorld c07Ops) 1 [2] (some 1) 1 [0] (by decide +kernel)
example := C07_unsubscribe_keeps 8 (run 8 diamondWorld c07Ops) 0 [some 1] (some 2) ⟨99, 1⟩ 0 [some 2] (some 1) ⟨30, 3⟩ (Or.inr (by decide))
example := C07_unsubscribe_result 8 (w := run 8 diamondWorld c07Ops) (by decide +kernel) (C04_count_ge 8 diamondSro diamondIro c07Ops) 0 [some 1] (some 2) ⟨99, 1⟩
  1 [2] (some 1)

/-- `(sro s).Nodup` is needed for the multiplicity theorem: with `sro 5 = [1, 1]` the walk visits the key `(1)` twice, and a
subscriber stored once is returned twice -/
theorem c07_needs_sro_nodup :
    let w := run 1 (emptyPush (fun i => if i = 5 then [1, 1] else [i]) (fun i => [i])) [.newreg 0 [], .subscribe 0 [some 1] (some 3) ⟨10, 1⟩]
    uncachedSubscriptions w 0 [5] (some 3) = [⟨10, 1⟩, ⟨10, 1⟩] ∧ allSubscriptionsU (w.reg 0) = [([some 1], some 3, ⟨10, 1⟩)] := by
  decide +kernel

/-- `(iro p).Nodup` is needed as well: with `iro 1 = [0, 0]`, `_extendors[0] = [1, 1]` and the provided key `1` is visited twice -/
theorem c07_needs_iro_nodup :
    let w := run 1 (emptyPush (fun i => [i]) (fun i => if i = 1 then [0, 0] else [i])) [.newreg 0 [], .subscribe 0 [] (some 1) ⟨10, 1⟩]
    uncachedSubscriptions w 0 [] (some 0) = [⟨10, 1⟩, ⟨10, 1⟩] ∧ allSubscriptionsU (w.reg 0) = [([], some 1, ⟨10, 1⟩)] := by
  decide +kernel


/-- the invariants `ExtInv` / `CountInv` in the state-level membership theorem are needed (they hold in every REACHABLE
world): a hand-made registry record holding a subscriber for the provided interface `3` but an empty `_extendors` table
answers `[]` — the walk never looks at the key -/
theorem c07_needs_invariants :
    let w : World := { sro := fun i => [i], iro := fun i => [i], verifying := false,
                       regs := [(0, { subs := [⟨0, mkNode [(some 3, mkLeaf [⟨1, 1⟩])]⟩], ro := [0] })] }
    uncachedSubscriptions w 0 [] (some 3) = [] ∧ subsLeaf w 0 [] (some 3) = [⟨1, 1⟩] ∧ 3 ∈ w.iro 3 := by
  decide

#print axioms C07_chain
#print axioms C07_regSubs_flat
#print axioms C07_flat
#print axioms C07_count
#print axioms C07_appKeys_spec
#print axioms C07_mem_some
#print axioms C07_mem_none
#print axioms C07_multiplicity
#print axioms C07_order_chain
#print axioms C07_order_required
#print axioms C07_sreqs_order
#print axioms C07_provKeys_order
#print axioms C07_leaf_history
#print axioms C07_subscribe_history
#print axioms C07_unsubscribe_history
#print axioms C07_unsubscribe_result
#print axioms C07_hist_unsubscribe_result
#print axioms C07_hist_flat
#print axioms C07_hist_mem_some
#print axioms C07_hist_mem_none
#print axioms C07_hist_multiplicity
#print axioms C07_hist_count
#print axioms C07_hist_order_chain
#print axioms C07_mem_some_any_flavour
#print axioms c07_needs_sro_nodup
#print axioms c07_needs_iro_nodup
#print axioms c07_demo
#print axioms c07_needs_invariants
end ZI.Registry
