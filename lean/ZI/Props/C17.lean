import ZI.VerifyModel
/-! # C17 — verifyObject / verifyClass accept exactly the candidates meeting the contract

Model: `ZI.Verify` (`_incompat`, `_verify_element`, `_verify`).  A signature is `(required, optional, *args?, **kw?)` as
`getSignatureInfo` reports it (C18 ties that to the real function); a call *shape* is a number of positionals plus a
number of keywords that are no parameter's name.  `admits` = the shapes an interface signature admits (the statement's
list), `binds` = Python's binding rule. -/
namespace ZI.Verify

/-- **C17_incompat_iff**: `_incompat` finds nothing exactly when every call shape the interface's signature admits
binds to the implementation -/
theorem C17_incompat_iff (iface impl : Sig) :
    incompat iface impl = none ↔ ∀ c : Shape, admits iface c → binds impl c := incompat_iff iface impl

/-- what the statement demands of one member of the interface -/
def ElemOk (cls : Bool) (e : Elem) : Prop :=
  match e.desc with
  | .attr => e.cand ≠ .missing ∨ cls = true            -- classes may create plain attributes in `__init__`
  | .method want =>
      match e.cand with
      | .missing => False
      | .func impl => ∀ c : Shape, admits want c → binds impl c
      | .opaqueCallable => True                           -- not introspectable: passes
      | .propertyObj => cls = true                        -- cannot know without an instance
      | .nonCallable => False

theorem verifyElement_none_iff (cls : Bool) (e : Elem) : verifyElement cls e = none ↔ ElemOk cls e := by
  obtain ⟨n, d, c⟩ := e
  cases d with
  | attr => cases c <;> cases cls <;> simp [verifyElement, ElemOk]
  | method want =>
    cases c with
    | func impl =>
      simp only [verifyElement, ElemOk, Option.map_eq_none_iff]
      exact incompat_iff want impl
    | _ => cases cls <;> simp [verifyElement, ElemOk]

/-- **C17_verify**: verification succeeds iff the candidate declares the interface (unless tentative) and every
member named by the interface or its bases is acceptable -/
theorem C17_verify (cls tentative declared : Bool) (elems : List Elem) :
    verify cls tentative declared elems = .ok ↔
      (tentative = true ∨ declared = true) ∧ ∀ e ∈ elems, ElemOk cls e := by
  have hnil : failures cls tentative declared elems = [] ↔
      (tentative = true ∨ declared = true) ∧ ∀ e ∈ elems, ElemOk cls e := by
    unfold failures
    rw [List.append_eq_nil_iff, List.filterMap_eq_nil_iff]
    constructor
    · rintro ⟨h1, h2⟩
      refine ⟨?_, fun e he => (verifyElement_none_iff cls e).mp (h2 e he)⟩
      cases tentative <;> cases declared <;> simp_all
    · rintro ⟨h1, h2⟩
      refine ⟨?_, fun e he => (verifyElement_none_iff cls e).mpr (h2 e he)⟩
      rcases h1 with h | h <;> simp [h]
  rw [← hnil]
  unfold verify
  split <;> simp_all

/-- **C17_errors**: all failures are reported — the single `Invalid` if there is exactly one, otherwise
`MultipleInvalid` listing exactly the individual failures, in order -/
theorem C17_errors (cls tentative declared : Bool) (elems : List Elem) :
    (∀ f, verify cls tentative declared elems = .single f ↔ failures cls tentative declared elems = [f]) ∧
    (∀ fs, verify cls tentative declared elems = .multiple fs ↔
        failures cls tentative declared elems = fs ∧ 2 ≤ fs.length) := by
  unfold verify
  constructor
  · intro f
    split <;> simp_all
  · intro fs
    split
    · rename_i h; simp [h]; intro h'; subst h'; simp
    · rename_i f h; simp [h]; intro h'; subst h'; simp
    · rename_i fs' h1 h2
      simp only [Result.multiple.injEq]
      constructor
      · intro e; subst e
        refine ⟨rfl, ?_⟩
        match hfs : failures cls tentative declared elems with
        | [] => exact absurd hfs h1
        | [f] => exact absurd hfs (h2 f)
        | _ :: _ :: _ => simp
      · intro h; exact h.1

/-- each failure listed is the failure of the member at that position (nothing invented, nothing merged) -/
theorem C17_failures_members (cls : Bool) (elems : List Elem) :
    failures cls true true elems = elems.filterMap (verifyElement cls) := by
  simp [failures]

/-- non-vacuity: an interface method `(a, b=None)` against `(a, *args)` passes; `(a, b, c)` is reported together with a
missing attribute as two failures -/
example : verify false false true
    [⟨1, .method ⟨1, 1, false, false⟩, .func ⟨1, 0, true, false⟩⟩] = .ok := by decide
example : verify false false true
    [⟨1, .method ⟨1, 1, false, false⟩, .func ⟨3, 0, false, false⟩⟩, ⟨2, .attr, .missing⟩] =
    .multiple [.brokenMethod 1 "implementation requires too many arguments", .brokenImplementation 2] := by decide
end ZI.Verify
