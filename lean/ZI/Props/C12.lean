import ZI.OrderModel
import ZI.OrderOps
/-! # C12 — interfaces have a total, hash-consistent, process-independent order

Model: `ZI.Order` — `OrderDefs` (key comparison, Python and C spelling), `OrderOps` (the comparison *methods* of
interfaces, `Implements`, `None`, foreign objects and CPython's binary-operator protocol; `sorted` as a stable
insertion sort asking only `<`).  Operands are *coherent* when equal identity means the same object. -/
namespace ZI.Order

/-- two operands of one script: the same identity is the same object -/
def Coh (a b : Operand) : Prop := a.same b = true → a = b

theorem compare3_self (k : Key) : compare3 k k = 0 := by
  simp [compare3, tupleLt_irrefl]

theorem intOp_compare3 (op : Cmp) (a b : Key) : intOp op (compare3 a b) = pyOp op a b := rfl

theorem pyOp_self (op : Cmp) (k : Key) : pyOp op k k = intOp op 0 := by
  rw [← intOp_compare3, compare3_self]

/-- a specification-like operand: interface or class specification -/
def Operand.isSpec : Operand → Bool
  | .iface _ _ => true | .impl _ _ => true | _ => false

theorem mixin_keyed {a b : Operand} {ka kb : Key} (hc : Coh a b) (ha : a.key? = some ka) (hb : b.key? = some kb) :
    mixinCompare a b ka = some (compare3 ka kb) := by
  unfold mixinCompare
  by_cases hs : a.same b = true
  · have := hc hs; subst this
    rw [ha] at hb; cases hb
    simp [hs, compare3_self]
  · simp only [hs]
    cases b <;> simp_all [Operand.key?]

/-- the method of an interface answers every operator by the key comparison, against anything that has a key -/
theorem methodPy_iface {i : Nat} {ka kb : Key} {b : Operand} (op : Cmp) (hc : Coh (.iface i ka) b)
    (hb : b.key? = some kb) : methodPy op (.iface i ka) b = some (pyOp op ka kb) := by
  show methodPy0 op (.iface i ka) b = _
  unfold methodPy0
  by_cases hs : (Operand.iface i ka).same b = true
  · have := hc hs; subst this
    simp only [Operand.key?] at hb; cases hb
    by_cases hne : op = .ne
    · subst hne; simp [hs, pyOp_self, intOp]
    · simp only [hne, false_and, if_false]
      rw [mixin_keyed hc rfl rfl]; rfl
  · have : ¬ (op = Cmp.ne ∧ (Operand.iface i ka).same b = true) := fun h => hs h.2
    simp only [this, if_false]
    rw [mixin_keyed hc rfl hb]; rfl

theorem binop_iface {i : Nat} {ka kb : Key} {b : Operand} (op : Cmp) (hc : Coh (.iface i ka) b)
    (hb : b.key? = some kb) : binop methodPy op (.iface i ka) b = .bool (pyOp op ka kb) := by
  unfold binop; rw [methodPy_iface op hc hb]

/-! ## order laws on keys (from `OrderModel`) in operator form -/
theorem pyOp_ne (a b : Key) : pyOp .ne a b = !pyOp .eq a b := by
  simp only [pyOp, compare3]
  by_cases h1 : tupleLt b a <;> by_cases h2 : tupleLt a b <;> simp [h1, h2]
theorem pyOp_gt (a b : Key) : pyOp .gt a b = pyOp .lt b a := by
  simp only [pyOp, compare3]
  by_cases h1 : tupleLt b a <;> by_cases h2 : tupleLt a b <;> simp [h1, h2]
  exact absurd h2 (tupleLt_asymm h1)
theorem pyOp_le (a b : Key) : pyOp .le a b = (pyOp .lt a b || pyOp .eq a b) := by
  simp only [pyOp, compare3]
  by_cases h1 : tupleLt b a <;> by_cases h2 : tupleLt a b <;> simp [h1, h2]
theorem pyOp_ge (a b : Key) : pyOp .ge a b = pyOp .le b a := by
  simp only [pyOp, compare3]
  by_cases h1 : tupleLt b a <;> by_cases h2 : tupleLt a b <;> simp [h1, h2]
  exact absurd h2 (tupleLt_asymm h1)
theorem pyOp_lt_trans {a b c : Key} (h1 : pyOp .lt a b = true) (h2 : pyOp .lt b c = true) : pyOp .lt a c = true :=
  (py_lt_iff a c).mpr (tupleLt_trans ((py_lt_iff a b).mp h1) ((py_lt_iff b c).mp h2))

/-! ## the statement, clause by clause (Python reference; the C twin follows from `C12_twin`) -/

/-- equal exactly when the `(__name__, __module__)` pairs are equal -/
theorem C12_eq_iff (i j : Nat) (ka kb : Key) (hc : Coh (.iface i ka) (.iface j kb)) :
    binop methodPy .eq (.iface i ka) (.iface j kb) = .bool (decide (ka = kb)) := by
  rw [binop_iface .eq hc rfl]
  congr 1
  by_cases h : ka = kb
  · simp [h, (py_eq_iff kb kb).mpr rfl]
  · simp only [h, decide_false]
    cases he : pyOp .eq ka kb with
    | false => rfl
    | true => exact absurd ((py_eq_iff ka kb).mp he) h

/-- equal interfaces hash equal (the hash is a function of the key) -/
theorem C12_hash (i j : Nat) (ka kb : Key) (hc : Coh (.iface i ka) (.iface j kb))
    (h : binop methodPy .eq (.iface i ka) (.iface j kb) = .bool true) :
    hashOf (.iface i ka) = hashOf (.iface j kb) := by
  rw [C12_eq_iff i j ka kb hc] at h
  have : ka = kb := by simpa using h
  simp [hashOf, this]

/-- `<` is a strict total order on interfaces by key: exactly one of `<`, `==`, `>` -/
theorem C12_trichotomy (i j : Nat) (ka kb : Key) (hc : Coh (.iface i ka) (.iface j kb))
    (hc' : Coh (.iface j kb) (.iface i ka)) :
    let lt := binop methodPy .lt (.iface i ka) (.iface j kb)
    let eq := binop methodPy .eq (.iface i ka) (.iface j kb)
    let gt := binop methodPy .lt (.iface j kb) (.iface i ka)
    (lt = .bool true ∧ eq = .bool false ∧ gt = .bool false) ∨
    (lt = .bool false ∧ eq = .bool true ∧ gt = .bool false) ∨
    (lt = .bool false ∧ eq = .bool false ∧ gt = .bool true) := by
  simp only [binop_iface _ hc rfl, binop_iface _ hc' rfl]
  rcases py_trichotomy ka kb with ⟨a, b, c⟩ | ⟨a, b, c⟩ | ⟨a, b, c⟩ <;> simp [a, b, c]

theorem C12_lt_irrefl (i : Nat) (k : Key) : binop methodPy .lt (.iface i k) (.iface i k) = .bool false := by
  rw [binop_iface .lt (fun _ => rfl) rfl]
  congr 1
  cases h : pyOp .lt k k with
  | false => rfl
  | true => exact absurd ((py_lt_iff k k).mp h) (tupleLt_irrefl k)

theorem C12_lt_trans (i j l : Nat) (ka kb kc : Key)
    (h1c : Coh (.iface i ka) (.iface j kb)) (h2c : Coh (.iface j kb) (.iface l kc)) (h3c : Coh (.iface i ka) (.iface l kc))
    (h1 : binop methodPy .lt (.iface i ka) (.iface j kb) = .bool true)
    (h2 : binop methodPy .lt (.iface j kb) (.iface l kc) = .bool true) :
    binop methodPy .lt (.iface i ka) (.iface l kc) = .bool true := by
  rw [binop_iface .lt h1c rfl] at h1; rw [binop_iface .lt h2c rfl] at h2; rw [binop_iface .lt h3c rfl]
  congr 1
  exact pyOp_lt_trans (by simpa using h1) (by simpa using h2)

/-- `<=` is `<` or `==`; `>`/`>=` are the converses; `!=` is the negation of `==`; reflected comparisons agree -/
theorem C12_derived (i j : Nat) (ka kb : Key) (hc : Coh (.iface i ka) (.iface j kb)) (hc' : Coh (.iface j kb) (.iface i ka)) :
    binop methodPy .le (.iface i ka) (.iface j kb) = .bool (pyOp .lt ka kb || pyOp .eq ka kb) ∧
    binop methodPy .gt (.iface i ka) (.iface j kb) = binop methodPy .lt (.iface j kb) (.iface i ka) ∧
    binop methodPy .ge (.iface i ka) (.iface j kb) = binop methodPy .le (.iface j kb) (.iface i ka) ∧
    binop methodPy .ne (.iface i ka) (.iface j kb) = .bool (!pyOp .eq ka kb) := by
  simp only [binop_iface _ hc rfl, binop_iface _ hc' rfl, pyOp_le, pyOp_gt, pyOp_ge, pyOp_ne, and_self]

/-- every interface and every class specification sorts before `None`, with every operator, both ways round -/
theorem C12_none_last (x : Operand) (hx : x.isSpec = true) :
    binop methodPy .lt x .none = .bool true ∧ binop methodPy .le x .none = .bool true ∧
    binop methodPy .gt x .none = .bool false ∧ binop methodPy .ge x .none = .bool false ∧
    binop methodPy .eq x .none = .bool false ∧ binop methodPy .ne x .none = .bool true ∧
    binop methodPy .lt .none x = .bool false ∧ binop methodPy .le .none x = .bool false ∧
    binop methodPy .gt .none x = .bool true ∧ binop methodPy .ge .none x = .bool true ∧
    binop methodPy .eq .none x = .bool false ∧ binop methodPy .ne .none x = .bool true := by
  cases x <;> simp [Operand.isSpec] at hx <;>
    simp [binop, methodPy, methodPy0, objectMethod, mixinCompare, Operand.same, Operand.ident, swapOp, intOp]

/-- interfaces and class specifications are ordered together by the same key … -/
theorem C12_mixed_order (a b : Operand) (ka kb : Key) (ha : a.isSpec = true) (hb : b.isSpec = true)
    (hka : a.key? = some ka) (hkb : b.key? = some kb) (hc : Coh a b) (op : Cmp)
    (hop : op = .lt ∨ op = .le ∨ op = .gt ∨ op = .ge) :
    binop methodPy op a b = .bool (pyOp op ka kb) := by
  cases a with
  | iface i k => simp only [Operand.key?] at hka; cases hka; exact binop_iface op hc hkb
  | impl i k =>
    simp only [Operand.key?] at hka; cases hka
    have : methodPy op (.impl i ka) b = (mixinCompare (.impl i ka) b ka).map (intOp op) := by
      rcases hop with h | h | h | h <;> subst h <;> rfl
    unfold binop
    rw [this, mixin_keyed hc rfl hkb]; rfl
  | _ => simp [Operand.isSpec] at ha

/-- … while class specifications keep identity equality -/
theorem C12_impl_identity (i j : Nat) (ka kb : Key) :
    binop methodPy .eq (.impl i ka) (.impl j kb) = .bool (decide (i = j)) ∧
    binop methodPy .ne (.impl i ka) (.impl j kb) = .bool (decide (i ≠ j)) := by
  by_cases h : i = j
  · subst h; simp [binop, methodPy, methodPy0, objectMethod, Operand.same, Operand.ident]
  · have h' : ¬ j = i := fun e => h e.symm
    simp [binop, methodPy, methodPy0, objectMethod, Operand.same, Operand.ident, swapOp, h, h']

/-! ## interfaces whose `__name__` is `None` (docless constructor call with a blank in the name) -/
theorem anonCompare_anon {i j : Nat} {m m2 : String} (hc : Coh (.anon i m) (.anon j m2)) :
    anonCompare (.anon i m) (.anon j m2) m = some (compare3 ("", m) ("", m2)) := by
  unfold anonCompare
  by_cases hs : (Operand.anon i m).same (.anon j m2) = true
  · have := hc hs; cases this; simp [hs, compare3_self]
  · simp [hs]

theorem methodPy_anon {i j : Nat} {m m2 : String} (op : Cmp) (hc : Coh (.anon i m) (.anon j m2)) :
    methodPy op (.anon i m) (.anon j m2) = some (pyOp op ("", m) ("", m2)) := by
  show methodPy0 op (.anon i m) (.anon j m2) = _
  unfold methodPy0
  by_cases hs : (Operand.anon i m).same (.anon j m2) = true
  · have := hc hs; cases this
    by_cases hne : op = .ne
    · subst hne; simp [hs, pyOp_self, intOp]
    · simp only [hne, false_and, if_false]
      rw [anonCompare_anon (fun _ => rfl)]; rfl
  · have : ¬ (op = Cmp.ne ∧ (Operand.anon i m).same (.anon j m2) = true) := fun h => hs h.2
    simp only [this, if_false]
    rw [anonCompare_anon hc]; rfl

/-- among `None`-named interfaces every operator is the comparison of the pairs `(None, module)`: the modules decide -/
theorem C12_anon_order (op : Cmp) (i j : Nat) (m m2 : String) (hc : Coh (.anon i m) (.anon j m2)) :
    binop methodPy op (.anon i m) (.anon j m2) = .bool (pyOp op ("", m) ("", m2)) := by
  unfold binop; rw [methodPy_anon op hc]

/-- … equal exactly when the pairs `(None, module)` are equal … -/
theorem C12_anon_eq_iff (i j : Nat) (m m2 : String) (hc : Coh (.anon i m) (.anon j m2)) :
    binop methodPy .eq (.anon i m) (.anon j m2) = .bool (decide (m = m2)) := by
  rw [C12_anon_order .eq i j m m2 hc]
  congr 1
  by_cases h : m = m2
  · subst h; simp [(py_eq_iff ("", m) ("", m)).mpr rfl]
  · simp only [h, decide_false]
    cases he : pyOp .eq ("", m) ("", m2) with
    | false => rfl
    | true => exact absurd (congrArg Prod.snd ((py_eq_iff _ _).mp he)) h

/-- … and then they hash equal (`hash((None, module))`): the clause a hash cached before `Element.__init__` has
settled `__name__` violates -/
theorem C12_anon_hash (i j : Nat) (m m2 : String) (hc : Coh (.anon i m) (.anon j m2))
    (h : binop methodPy .eq (.anon i m) (.anon j m2) = .bool true) :
    hashOf (.anon i m) = hashOf (.anon j m2) := by
  rw [C12_anon_eq_iff i j m m2 hc] at h
  have : m = m2 := by simpa using h
  simp [hashOf, this]

/-- the constructor rule: a docless name with a blank ends up `None`-named, any other call keeps its name -/
theorem mkIface_cases (id : Nat) (name module : String) (hasDoc : Bool) :
    (hasDoc = false ∧ name.toList.any (· == ' ') = true ∧ mkIface id name module hasDoc = .anon id module) ∨
    ((hasDoc = true ∨ name.toList.any (· == ' ') = false) ∧ mkIface id name module hasDoc = .iface id (name, module)) := by
  unfold mkIface finalName
  cases hasDoc <;> cases h : name.toList.any (· == ' ') <;> simp [h]

/-- `None`-named interfaces sort before `None` like every other interface -/
theorem C12_anon_none_last (i : Nat) (m : String) :
    let x := Operand.anon i m
    binop methodPy .lt x .none = .bool true ∧ binop methodPy .le x .none = .bool true ∧
    binop methodPy .gt x .none = .bool false ∧ binop methodPy .ge x .none = .bool false ∧
    binop methodPy .eq x .none = .bool false ∧ binop methodPy .ne x .none = .bool true ∧
    binop methodPy .lt .none x = .bool false ∧ binop methodPy .le .none x = .bool false ∧
    binop methodPy .gt .none x = .bool true ∧ binop methodPy .ge .none x = .bool true ∧
    binop methodPy .eq .none x = .bool false ∧ binop methodPy .ne .none x = .bool true := by
  simp [binop, methodPy, methodPy0, objectMethod, anonCompare, Operand.same, Operand.ident, swapOp, intOp]

/-! ## foreign operands with comparison methods of their own: the library defers -/
/-- a specification-like operand incl. the `None`-named interfaces -/
def Operand.isLib : Operand → Bool
  | .iface _ _ => true | .impl _ _ => true | .anon _ _ => true | _ => false
/-- a foreign object without `__name__`/`__module__` -/
def Operand.nameless : Operand → Bool
  | .plain _ => true | .wrap _ _ _ => true | .sentinel _ _ _ => true | _ => false

/-- **C12_defers**: against a foreign object that has no `__name__`/`__module__`, every comparison method of an
interface or class specification answers `NotImplemented` — with every operator, in both implementations — so that the
other operand's reflected method decides.  (A method answering `False`/`True` itself here is what makes `iface == x`
and `x == iface` disagree for proxies and match-anything sentinels.) -/
theorem not_same_of_lib_nameless (a b : Operand) (ha : a.isLib = true) (hb : b.nameless = true) (hc : Coh a b) :
    a.same b = false := by
  cases h : a.same b with
  | false => rfl
  | true => have := hc h; subst this; cases a <;> simp_all [Operand.isLib, Operand.nameless]

theorem C12_defers (op : Cmp) (a b : Operand) (ha : a.isLib = true) (hb : b.nameless = true) (hc : Coh a b) :
    methodPy op a b = Option.none ∧ methodC op a b = Option.none := by
  have hs := not_same_of_lib_nameless a b ha hb hc
  cases a <;> simp [Operand.isLib] at ha <;> cases b <;> simp [Operand.nameless] at hb <;> cases op <;>
    simp [methodPy, methodC, methodPy0, methodC0, ibRichcompare, ibRichcompareAnon, mixinCompare, anonCompare, objectMethod,
      hs, Operand.key?]

theorem swapOp_swapOp (op : Cmp) : swapOp (swapOp op) = op := by cases op <;> rfl

theorem same_comm (a b : Operand) : a.same b = b.same a := by
  simp only [Operand.same]; exact Bool.eq_iff_iff.mpr ⟨fun h => by simpa using (by simpa using h : a.ident = b.ident).symm,
    fun h => by simpa using (by simpa using h : b.ident = a.ident).symm⟩

/-- **C12_reflected**: reflected comparisons agree with such operands — `a op b` and `b op' a` (`op'` the mirrored
operator) are the same value or both `TypeError`, whatever `b`'s own methods answer -/
theorem C12_reflected (op : Cmp) (a b : Operand) (ha : a.isLib = true) (hb : b.nameless = true) (hc : Coh a b) :
    binop methodPy op a b = binop methodPy (swapOp op) b a ∧ binop methodC op a b = binop methodC (swapOp op) b a := by
  have h1 := C12_defers op a b ha hb hc
  constructor
  · unfold binop
    rw [swapOp_swapOp, h1.1]
    cases methodPy (swapOp op) b a with
    | some v => rfl
    | none => cases op <;> simp [swapOp, same_comm a b]
  · unfold binop
    rw [swapOp_swapOp, h1.2]
    cases methodC (swapOp op) b a with
    | some v => rfl
    | none => cases op <;> simp [swapOp, same_comm a b]

/-- a transparent proxy is transparent from both sides: `iface == proxy` is what `proxy == iface` is, namely what
`target == iface` is, i.e. equality of the `(name, module)` pairs; `!=` is its negation -/
theorem C12_proxy (i w t : Nat) (k kt : Key) (hc : Coh (.iface t kt) (.iface i k))
    (hw : Coh (.iface i k) (.wrap w t kt)) :
    binop methodPy .eq (.iface i k) (.wrap w t kt) = .bool (pyOp .eq kt k) ∧
    binop methodPy .eq (.wrap w t kt) (.iface i k) = .bool (pyOp .eq kt k) ∧
    binop methodPy .ne (.iface i k) (.wrap w t kt) = .bool (!pyOp .eq kt k) ∧
    binop methodPy .ne (.wrap w t kt) (.iface i k) = .bool (!pyOp .eq kt k) := by
  have e1 : methodPy .eq (.wrap w t kt) (.iface i k) = some (pyOp .eq kt k) := by
    show some (wrapAnswer methodPy0 .eq t kt (.iface i k)) = _
    have := binop_iface .eq hc (b := .iface i k) rfl
    simp only [wrapAnswer]; rw [show binop methodPy0 Cmp.eq (.iface t kt) (.iface i k) = binop methodPy .eq (.iface t kt) (.iface i k) from rfl, this]; rfl
  have e2 : methodPy .ne (.wrap w t kt) (.iface i k) = some (!pyOp .eq kt k) := by
    show some (wrapAnswer methodPy0 .ne t kt (.iface i k)) = _
    have := binop_iface .ne hc (b := .iface i k) rfl
    simp only [wrapAnswer]; rw [show binop methodPy0 Cmp.ne (.iface t kt) (.iface i k) = binop methodPy .ne (.iface t kt) (.iface i k) from rfl, this, pyOp_ne]; rfl
  have d1 := (C12_defers .eq (.iface i k) (.wrap w t kt) rfl rfl hw).1
  have d2 := (C12_defers .ne (.iface i k) (.wrap w t kt) rfl rfl hw).1
  refine ⟨?_, ?_, ?_, ?_⟩
  · unfold binop; rw [d1]; simp only [swapOp]; rw [e1]
  · unfold binop; rw [e1]
  · unfold binop; rw [d2]; simp only [swapOp]; rw [e2]
  · unfold binop; rw [e2]

/-- a constant-answer sentinel (`unittest.mock.ANY` is `sentinel _ true none`) gets its way from both sides -/
theorem C12_sentinel (a : Operand) (ha : a.isLib = true) (s : Nat) (e : Bool) (o : Option Bool)
    (hc : Coh a (.sentinel s e o)) :
    binop methodPy .eq a (.sentinel s e o) = .bool e ∧ binop methodPy .eq (.sentinel s e o) a = .bool e ∧
    binop methodPy .ne a (.sentinel s e o) = .bool (!e) ∧ binop methodPy .ne (.sentinel s e o) a = .bool (!e) := by
  have d1 := (C12_defers .eq a (.sentinel s e o) ha rfl hc).1
  have d2 := (C12_defers .ne a (.sentinel s e o) ha rfl hc).1
  refine ⟨?_, ?_, ?_, ?_⟩
  · unfold binop; rw [d1]; rfl
  · rfl
  · unfold binop; rw [d2]; rfl
  · rfl

/-! ## both implementations -/
theorem ib_eq_py {i : Nat} {k : Key} (op : Cmp) (b : Operand) (hc : Coh (.iface i k) b) :
    ibRichcompare op (.iface i k) b k = methodPy op (.iface i k) b := by
  by_cases hs : (Operand.iface i k).same b = true
  · have := hc hs; subst this
    rw [methodPy_iface op (fun _ => rfl) rfl, pyOp_self]
    unfold ibRichcompare
    cases op <;> simp [hs, intOp, Operand.key?, cOp, strOp]
  · cases b with
    | none => cases op <;> simp [ibRichcompare, methodPy, methodPy0, mixinCompare, Operand.same, Operand.ident, intOp]
    | plain j =>
      have hs' : (Operand.iface i k).same (.plain j) = false := by simpa using hs
      cases op <;> simp [ibRichcompare, methodPy, methodPy0, mixinCompare, hs', Operand.key?]
    | anon j m =>
      have hs' : (Operand.iface i k).same (.anon j m) = false := by simpa using hs
      cases op <;> simp [ibRichcompare, methodPy, methodPy0, mixinCompare, hs', Operand.key?]
    | wrap j t kt =>
      have hs' : (Operand.iface i k).same (.wrap j t kt) = false := by simpa using hs
      cases op <;> simp [ibRichcompare, methodPy, methodPy0, mixinCompare, hs', Operand.key?]
    | sentinel j e o =>
      have hs' : (Operand.iface i k).same (.sentinel j e o) = false := by simpa using hs
      cases op <;> simp [ibRichcompare, methodPy, methodPy0, mixinCompare, hs', Operand.key?]
    | iface j kb =>
      have hs' : (Operand.iface i k).same (.iface j kb) = false := by simpa using hs
      rw [methodPy_iface op hc rfl, ← c_eq_py]
      cases op <;> simp [ibRichcompare, hs', Operand.key?]
    | impl j kb =>
      have hs' : (Operand.iface i k).same (.impl j kb) = false := by simpa using hs
      rw [methodPy_iface op hc rfl, ← c_eq_py]
      cases op <;> simp [ibRichcompare, hs', Operand.key?]
    | foreign j kb =>
      have hs' : (Operand.iface i k).same (.foreign j kb) = false := by simpa using hs
      rw [methodPy_iface op hc rfl, ← c_eq_py]
      cases op <;> simp [ibRichcompare, hs', Operand.key?]

theorem ibAnon_eq_py {i : Nat} {m : String} (op : Cmp) (b : Operand) (hc : Coh (.anon i m) b) :
    ibRichcompareAnon op (.anon i m) b m = methodPy op (.anon i m) b := by
  by_cases hs : (Operand.anon i m).same b = true
  · have := hc hs; subst this
    rw [methodPy_anon op (fun _ => rfl), pyOp_self]
    unfold ibRichcompareAnon
    cases op <;> simp [hs, intOp, cOp, strOp]
  · cases b with
    | none => cases op <;> simp [ibRichcompareAnon, methodPy, methodPy0, anonCompare, Operand.same, Operand.ident, intOp]
    | anon j m2 =>
      have hs' : (Operand.anon i m).same (.anon j m2) = false := by simpa using hs
      rw [methodPy_anon op hc, ← c_eq_py]
      cases op <;> simp [ibRichcompareAnon, hs']
    | plain j =>
      have hs' : (Operand.anon i m).same (.plain j) = false := by simpa using hs
      cases op <;> simp [ibRichcompareAnon, methodPy, methodPy0, anonCompare, hs']
    | wrap j t kt =>
      have hs' : (Operand.anon i m).same (.wrap j t kt) = false := by simpa using hs
      cases op <;> simp [ibRichcompareAnon, methodPy, methodPy0, anonCompare, hs']
    | sentinel j e o =>
      have hs' : (Operand.anon i m).same (.sentinel j e o) = false := by simpa using hs
      cases op <;> simp [ibRichcompareAnon, methodPy, methodPy0, anonCompare, hs']
    | iface j kb =>
      have hs' : (Operand.anon i m).same (.iface j kb) = false := by simpa using hs
      cases op <;> simp [ibRichcompareAnon, methodPy, methodPy0, anonCompare, hs']
    | impl j kb =>
      have hs' : (Operand.anon i m).same (.impl j kb) = false := by simpa using hs
      cases op <;> simp [ibRichcompareAnon, methodPy, methodPy0, anonCompare, hs']
    | foreign j kb =>
      have hs' : (Operand.anon i m).same (.foreign j kb) = false := by simpa using hs
      cases op <;> simp [ibRichcompareAnon, methodPy, methodPy0, anonCompare, hs']

/-- the methods of every operand but the proxy -/
theorem methodC0_eq_py0 (op : Cmp) (a b : Operand) (hc : Coh a b) : methodC0 op a b = methodPy0 op a b := by
  cases a with
  | iface i k => exact ib_eq_py op b hc
  | anon i m => exact ibAnon_eq_py op b hc
  | _ => rfl

theorem binop0_twin (op : Cmp) (a b : Operand) (hab : Coh a b) (hba : Coh b a) :
    binop methodC0 op a b = binop methodPy0 op a b := by
  unfold binop
  rw [methodC0_eq_py0 op a b hab, methodC0_eq_py0 (swapOp op) b a hba]

/-- what a comparison with `a` ends up comparing: `a` itself or, for a transparent proxy, its target -/
def Operand.core : Operand → Operand
  | .wrap _ tid k => .iface tid k
  | x => x

/-- coherence of a pair of operands of one script, proxies' targets included -/
def CohW (a b : Operand) : Prop :=
  Coh a b ∧ Coh b a ∧ Coh a.core b ∧ Coh b a.core ∧ Coh a b.core ∧ Coh b.core a ∧ Coh a.core b.core ∧ Coh b.core a.core

theorem wrapAnswer_twin (op : Cmp) (t : Nat) (k : Key) (b : Operand)
    (h1 : Coh (.iface t k) b) (h2 : Coh b (.iface t k)) (h3 : Coh (.iface t k) b.core) (h4 : Coh b.core (.iface t k)) :
    wrapAnswer methodC0 op t k b = wrapAnswer methodPy0 op t k b := by
  cases b with
  | wrap j t2 k2 => exact congrArg Res.toBool (binop0_twin op _ _ h4 h3)
  | _ => exact congrArg Res.toBool (binop0_twin op _ _ h1 h2)

theorem methodC_eq_py (op : Cmp) (a b : Operand) (hc : Coh a b) (h1 : Coh a.core b) (h2 : Coh b a.core)
    (h3 : Coh a.core b.core) (h4 : Coh b.core a.core) : methodC op a b = methodPy op a b := by
  cases a with
  | wrap i t k =>
    cases op <;> simp only [methodC, methodPy] <;> rw [wrapAnswer_twin _ t k b h1 h2 h3 h4]
  | iface i k => exact ib_eq_py op b hc
  | anon i m => exact ibAnon_eq_py op b hc
  | _ => rfl

/-- **C12_twin**: every comparison gives the same result (value, or `TypeError`) with the C accelerator and with the
Python reference, for all operands of the model: interfaces, class specifications, `None`, foreign objects with string
`__name__`/`__module__`, nameless ones with or without comparison methods of their own, `None`-named interfaces -/
theorem C12_twin (op : Cmp) (a b : Operand) (h : CohW a b) :
    binop methodC op a b = binop methodPy op a b := by
  obtain ⟨hab, hba, h1, h2, h5, h6, h3, h4⟩ := h
  unfold binop
  rw [methodC_eq_py op a b hab h1 h2 h3 h4, methodC_eq_py (swapOp op) b a hba h6 h5 h4 h3]

/-! ## sorting -/
def keyLt (a b : Option Key) : Bool :=
  match a, b with
  | some _, Option.none => true
  | some x, some y => decide (tupleLt x y)
  | Option.none, _ => false

/-- what `sorted` sees is a function of the keys alone — no identities, addresses or hashes -/
theorem C12_lt_by_key (a b : Operand) (ha : a.isSpec = true ∨ a = .none) (hb : b.isSpec = true ∨ b = .none)
    (hc : Coh a b) : ltB methodPy a b = keyLt (sortKey a) (sortKey b) := by
  rcases hb with hb | hb
  · rcases ha with ha | ha
    · obtain ⟨ka, hka⟩ : ∃ ka, a.key? = some ka := by cases a <;> simp_all [Operand.isSpec, Operand.key?]
      obtain ⟨kb, hkb⟩ : ∃ kb, b.key? = some kb := by cases b <;> simp_all [Operand.isSpec, Operand.key?]
      have hsa : sortKey a = some ka := by cases a <;> simp_all [sortKey, Operand.isSpec]
      have hsb : sortKey b = some kb := by cases b <;> simp_all [sortKey, Operand.isSpec]
      unfold ltB
      rw [C12_mixed_order a b ka kb ha hb hka hkb hc .lt (Or.inl rfl), hsa, hsb]
      simp only [keyLt]
      by_cases h : tupleLt ka kb
      · simp [h, (py_lt_iff ka kb).mpr h]
      · have : pyOp .lt ka kb = false := by
          cases hp : pyOp .lt ka kb with
          | false => rfl
          | true => exact absurd ((py_lt_iff ka kb).mp hp) h
        simp [h, this]
    · subst ha
      have := (C12_none_last b hb).2.2.2.2.2.2.1
      cases b <;> simp_all [ltB, sortKey, keyLt, Operand.isSpec]
  · subst hb
    rcases ha with ha | ha
    · have := (C12_none_last a ha).1
      cases a <;> simp_all [ltB, sortKey, keyLt, Operand.isSpec, Operand.key?]
    · subst ha; simp [ltB, binop, methodPy, methodPy0, objectMethod, swapOp, sortKey, keyLt]

theorem keyLt_irrefl (a : Option Key) : keyLt a a = false := by
  cases a <;> simp [keyLt, tupleLt_irrefl]
theorem keyLt_trans {a b c : Option Key} (h1 : keyLt a b = true) (h2 : keyLt b c = true) : keyLt a c = true := by
  cases a <;> cases b <;> cases c <;> simp_all [keyLt]
  exact tupleLt_trans h1 h2
theorem keyLt_total {a b : Option Key} (h1 : keyLt a b = false) (h2 : keyLt b a = false) : a = b := by
  cases a <;> cases b <;> simp_all [keyLt]
  rename_i x y
  rcases tupleLt_trichotomy x y with h | h | h
  · exact absurd h h1
  · exact h
  · exact absurd h h2

section sort
variable (lt : Operand → Operand → Bool)

theorem insertSorted_perm (x : Operand) (l : List Operand) : (insertSorted lt x l).Perm (x :: l) := by
  induction l with
  | nil => exact List.Perm.refl _
  | cons y ys ih =>
    unfold insertSorted
    split
    · exact (List.Perm.cons y ih).trans (List.Perm.swap x y ys)
    · exact List.Perm.refl _

theorem sortModel_perm (l : List Operand) : (sortModel lt l).Perm l := by
  induction l with
  | nil => exact List.Perm.refl _
  | cons x xs ih =>
    show (insertSorted lt x (sortModel lt xs)).Perm (x :: xs)
    exact (insertSorted_perm lt x _).trans (List.Perm.cons x ih)
end sort

/-- `b` does not sort strictly before `a` -/
def NotAfter (a b : Operand) : Prop := keyLt (sortKey b) (sortKey a) = false

theorem insertSorted_sorted (x : Operand) (l : List Operand) (hs : l.Pairwise NotAfter) :
    (insertSorted (fun a b => keyLt (sortKey a) (sortKey b)) x l).Pairwise NotAfter := by
  induction l with
  | nil => simp [insertSorted]
  | cons y ys ih =>
    unfold insertSorted
    have hy := List.pairwise_cons.mp hs
    split
    · rename_i hlt
      refine List.pairwise_cons.mpr ⟨?_, ih hy.2⟩
      intro z hz
      have hz' := (insertSorted_perm _ x ys).subset hz
      rcases List.mem_cons.mp hz' with rfl | hz'
      · show keyLt (sortKey z) (sortKey y) = false
        cases h : keyLt (sortKey z) (sortKey y) with
        | false => rfl
        | true => have := keyLt_trans hlt h; rw [keyLt_irrefl] at this; exact absurd this (by simp)
      · exact hy.1 z hz'
    · rename_i hnlt
      have hnlt : keyLt (sortKey y) (sortKey x) = false := by simpa using hnlt
      refine List.pairwise_cons.mpr ⟨?_, hs⟩
      intro z hz
      rcases List.mem_cons.mp hz with rfl | hz
      · exact hnlt
      · show keyLt (sortKey z) (sortKey x) = false
        cases h : keyLt (sortKey z) (sortKey x) with
        | false => rfl
        | true =>
          have h1 := hy.1 z hz       -- keyLt z y = false
          -- y ≤ x is false-lt and z < x; if y and z … use totality
          by_cases hyz : keyLt (sortKey y) (sortKey z) = true
          · have := keyLt_trans hyz h; rw [hnlt] at this; exact absurd this (by simp)
          · have heq := keyLt_total (by simpa using hyz) h1
            rw [heq] at hnlt; rw [hnlt] at h; exact absurd h (by simp)

/-- the sort of a collection whose every `<` is the comparison of the sort keys -/
theorem sort_by_key (l : List Operand)
    (hk : ∀ a ∈ l, ∀ b ∈ l, ltB methodPy a b = keyLt (sortKey a) (sortKey b)) :
    sortModel (ltB methodPy) l = sortModel (fun a b => keyLt (sortKey a) (sortKey b)) l ∧
    (sortModel (ltB methodPy) l).Perm l ∧ (sortModel (ltB methodPy) l).Pairwise NotAfter := by
  have key : ∀ l' : List Operand, (∀ a ∈ l', a ∈ l) →
      sortModel (ltB methodPy) l' = sortModel (fun a b => keyLt (sortKey a) (sortKey b)) l' := by
    intro l'
    induction l' with
    | nil => intro _; rfl
    | cons x xs ih =>
      intro hsub
      have ihx := ih (fun a ha => hsub a (List.mem_cons_of_mem _ ha))
      show insertSorted _ x (sortModel _ xs) = insertSorted _ x (sortModel _ xs)
      rw [ihx]
      have hmem : ∀ y ∈ sortModel (fun a b => keyLt (sortKey a) (sortKey b)) xs, y ∈ l := fun y hy =>
        hsub y (List.mem_cons_of_mem _ ((sortModel_perm _ xs).subset hy))
      have hx : x ∈ l := hsub x (List.mem_cons_self ..)
      generalize sortModel (fun a b => keyLt (sortKey a) (sortKey b)) xs = s at hmem
      induction s with
      | nil => rfl
      | cons y ys ihs =>
        have hy : y ∈ l := hmem y (List.mem_cons_self ..)
        unfold insertSorted
        rw [hk y hy x hx, ihs (fun z hz => hmem z (List.mem_cons_of_mem _ hz))]
  have e := key l (fun a ha => ha)
  refine ⟨e, sortModel_perm _ l, ?_⟩
  rw [e]
  clear e key hk
  induction l with
  | nil => exact List.Pairwise.nil
  | cons x xs ih => exact insertSorted_sorted x _ ih

/-- **C12_sort**: sorting any mixed collection of interfaces, class specifications and `None` gives a permutation of
the input that is ordered by `(name, module)` with `None` last, and is computed from the keys alone -/
theorem C12_sort (l : List Operand) (hl : ∀ a ∈ l, a.isSpec = true ∨ a = .none)
    (hc : ∀ a ∈ l, ∀ b ∈ l, Coh a b) :
    sortModel (ltB methodPy) l = sortModel (fun a b => keyLt (sortKey a) (sortKey b)) l ∧
    (sortModel (ltB methodPy) l).Perm l ∧ (sortModel (ltB methodPy) l).Pairwise NotAfter :=
  sort_by_key l (fun a ha b hb => C12_lt_by_key a b (hl a ha) (hl b hb) (hc a ha b hb))

theorem C12_lt_by_key_anon (a b : Operand) (ha : a.isAnon = true ∨ a = .none) (hb : b.isAnon = true ∨ b = .none)
    (hc : Coh a b) : ltB methodPy a b = keyLt (sortKey a) (sortKey b) := by
  rcases ha with ha | ha
  · cases a <;> simp [Operand.isAnon] at ha
    rename_i i m
    rcases hb with hb | hb
    · cases b <;> simp [Operand.isAnon] at hb
      rename_i j m2
      unfold ltB
      rw [C12_anon_order .lt i j m m2 hc]
      simp only [sortKey, keyLt]
      by_cases h : tupleLt ("", m) ("", m2)
      · simp [h, (py_lt_iff _ _).mpr h]
      · have : pyOp .lt ("", m) ("", m2) = false := by
          cases hp : pyOp .lt ("", m) ("", m2) with
          | false => rfl
          | true => exact absurd ((py_lt_iff _ _).mp hp) h
        simp [h, this]
    · subst hb
      have := (C12_anon_none_last i m).1
      simp_all [ltB, sortKey, keyLt]
  · subst ha
    rcases hb with hb | hb
    · cases b <;> simp [Operand.isAnon] at hb
      rename_i j m2
      have := (C12_anon_none_last j m2).2.2.2.2.2.2.1
      simp_all [ltB, sortKey, keyLt]
    · subst hb; simp [ltB, binop, methodPy, methodPy0, objectMethod, swapOp, sortKey, keyLt]

/-- … and so does sorting a collection of `None`-named interfaces and `None`: by module, `None` last -/
theorem C12_sort_anon (l : List Operand) (hl : ∀ a ∈ l, a.isAnon = true ∨ a = .none)
    (hc : ∀ a ∈ l, ∀ b ∈ l, Coh a b) :
    sortModel (ltB methodPy) l = sortModel (fun a b => keyLt (sortKey a) (sortKey b)) l ∧
    (sortModel (ltB methodPy) l).Perm l ∧ (sortModel (ltB methodPy) l).Pairwise NotAfter :=
  sort_by_key l (fun a ha b hb => C12_lt_by_key_anon a b (hl a ha) (hl b hb) (hc a ha b hb))

/-- the premises are satisfiable by a non-trivial collection: equal names in different modules, a prefix-related
name, a class specification and `None` -/
example : let l := [Operand.none, .iface 1 ("IB", "m"), .impl 2 ("m.C", "zope.interface.declarations"), .iface 3 ("I", "n"), .iface 4 ("I", "m")]
    sortModel (ltB methodPy) l = [.iface 4 ("I", "m"), .iface 3 ("I", "n"), .iface 1 ("IB", "m"),
      .impl 2 ("m.C", "zope.interface.declarations"), .none] := by decide

/-- the new operand classes evaluated: a proxy of an equal interface and of a different one, the match-anything
sentinel, and two `None`-named interfaces of one module built from different texts -/
example : binop methodPy .eq (.iface 1 ("I", "m")) (.wrap 9 2 ("I", "m")) = .bool true ∧
    binop methodC .ne (.iface 1 ("I", "m")) (.wrap 9 2 ("I", "m")) = .bool false ∧
    binop methodPy .eq (.iface 1 ("I", "m")) (.wrap 9 3 ("J", "m")) = .bool false ∧
    binop methodPy .eq (.iface 1 ("I", "m")) (.sentinel 8 true Option.none) = .bool true ∧
    binop methodPy .lt (.iface 1 ("I", "m")) (.sentinel 8 true Option.none) = .typeError ∧
    binop methodPy .lt (.impl 4 ("m.C", "d")) (.sentinel 8 true (some false)) = .bool false ∧
    binop methodPy .eq (mkIface 5 "order entry" "m" false) (mkIface 6 "order line" "m" false) = .bool true ∧
    hashOf (mkIface 5 "order entry" "m" false) = hashOf (mkIface 6 "order line" "m" false) ∧
    mkIface 7 "order entry" "m" true = .iface 7 ("order entry", "m") := by decide
end ZI.Order
