import ZI.OrderModel
import ZI.OrderOps
/-! # C12 — interfaces have a total, hash-consistent, process-independent order

Model: `ZI.Order` — `OrderDefs` (key comparison, Python and C spelling), `OrderOps` (the comparison *methods* of
interfaces, `Implements`, `None`, foreign objects and CPython's binary-operator protocol; `sorted` as a stable
insertion sort asking only `<`).  Operands are *coherent* when equal identity means the same object. -/
namespace ZI.Order

/-- two operands of one script: the same identity is the same object -/
def Coh (a b : Operand) : Prop := a.same b = true → a = b

theorem compare3_self (k : Key) : compare3 k k = 0 := by
  simp [compare3, tupleLt_irrefl]

theorem intOp_compare3 (op : Cmp) (a b : Key) : intOp op (compare3 a b) = pyOp op a b := rfl

theorem pyOp_self (op : Cmp) (k : Key) : pyOp op k k = intOp op 0 := by
  rw [← intOp_compare3, compare3_self]

/-- a specification-like operand: interface or class specification -/
def Operand.isSpec : Operand → Bool
  | .iface _ _ => true | .impl _ _ => true | _ => false

theorem mixin_keyed {a b : Operand} {ka kb : Key} (hc : Coh a b) (ha : a.key? = some ka) (hb : b.key? = some kb) :
    mixinCompare a b ka = some (compare3 ka kb) := by
  unfold mixinCompare
  by_cases hs : a.same b = true
  · have := hc hs; subst this
    rw [ha] at hb; cases hb
    simp [hs, compare3_self]
  · simp only [hs]
    cases b <;> simp_all [Operand.key?]

/-- the method of an interface answers every operator by the key comparison, against anything that has a key -/
theorem methodPy_iface {i : Nat} {ka kb : Key} {b : Operand} (op : Cmp) (hc : Coh (.iface i ka) b)
    (hb : b.key? = some kb) : methodPy op (.iface i ka) b = some (pyOp op ka kb) := by
  unfold methodPy
  by_cases hs : (Operand.iface i ka).same b = true
  · have := hc hs; subst this
    simp only [Operand.key?] at hb; cases hb
    by_cases hne : op = .ne
    · subst hne; simp [hs, pyOp_self, intOp]
    · simp only [hne, false_and, if_false]
      rw [mixin_keyed hc rfl rfl]; rfl
  · have : ¬ (op = Cmp.ne ∧ (Operand.iface i ka).same b = true) := fun h => hs h.2
    simp only [this, if_false]
    rw [mixin_keyed hc rfl hb]; rfl

theorem binop_iface {i : Nat} {ka kb : Key} {b : Operand} (op : Cmp) (hc : Coh (.iface i ka) b)
    (hb : b.key? = some kb) : binop methodPy op (.iface i ka) b = .bool (pyOp op ka kb) := by
  unfold binop; rw [methodPy_iface op hc hb]

/-! ## order laws on keys (from `OrderModel`) in operator form -/
theorem pyOp_ne (a b : Key) : pyOp .ne a b = !pyOp .eq a b := by
  simp only [pyOp, compare3]
  by_cases h1 : tupleLt b a <;> by_cases h2 : tupleLt a b <;> simp [h1, h2]
theorem pyOp_gt (a b : Key) : pyOp .gt a b = pyOp .lt b a := by
  simp only [pyOp, compare3]
  by_cases h1 : tupleLt b a <;> by_cases h2 : tupleLt a b <;> simp [h1, h2]
  exact absurd h2 (tupleLt_asymm h1)
theorem pyOp_le (a b : Key) : pyOp .le a b = (pyOp .lt a b || pyOp .eq a b) := by
  simp only [pyOp, compare3]
  by_cases h1 : tupleLt b a <;> by_cases h2 : tupleLt a b <;> simp [h1, h2]
theorem pyOp_ge (a b : Key) : pyOp .ge a b = pyOp .le b a := by
  simp only [pyOp, compare3]
  by_cases h1 : tupleLt b a <;> by_cases h2 : tupleLt a b <;> simp [h1, h2]
  exact absurd h2 (tupleLt_asymm h1)
theorem pyOp_lt_trans {a b c : Key} (h1 : pyOp .lt a b = true) (h2 : pyOp .lt b c = true) : pyOp .lt a c = true :=
  (py_lt_iff a c).mpr (tupleLt_trans ((py_lt_iff a b).mp h1) ((py_lt_iff b c).mp h2))

/-! ## the statement, clause by clause (Python reference; the C twin follows from `C12_twin`) -/

/-- equal exactly when the `(__name__, __module__)` pairs are equal -/
theorem C12_eq_iff (i j : Nat) (ka kb : Key) (hc : Coh (.iface i ka) (.iface j kb)) :
    binop methodPy .eq (.iface i ka) (.iface j kb) = .bool (decide (ka = kb)) := by
  rw [binop_iface .eq hc rfl]
  congr 1
  by_cases h : ka = kb
  · simp [h, (py_eq_iff kb kb).mpr rfl]
  · simp only [h, decide_false]
    cases he : pyOp .eq ka kb with
    | false => rfl
    | true => exact absurd ((py_eq_iff ka kb).mp he) h

/-- equal interfaces hash equal (the hash is a function of the key) -/
theorem C12_hash (i j : Nat) (ka kb : Key) (hc : Coh (.iface i ka) (.iface j kb))
    (h : binop methodPy .eq (.iface i ka) (.iface j kb) = .bool true) :
    hashOf (.iface i ka) = hashOf (.iface j kb) := by
  rw [C12_eq_iff i j ka kb hc] at h
  have : ka = kb := by simpa using h
  simp [hashOf, this]

/-- `<` is a strict total order on interfaces by key: exactly one of `<`, `==`, `>` -/
theorem C12_trichotomy (i j : Nat) (ka kb : Key) (hc : Coh (.iface i ka) (.iface j kb))
    (hc' : Coh (.iface j kb) (.iface i ka)) :
    let lt := binop methodPy .lt (.iface i ka) (.iface j kb)
    let eq := binop methodPy .eq (.iface i ka) (.iface j kb)
    let gt := binop methodPy .lt (.iface j kb) (.iface i ka)
    (lt = .bool true ∧ eq = .bool false ∧ gt = .bool false) ∨
    (lt = .bool false ∧ eq = .bool true ∧ gt = .bool false) ∨
    (lt = .bool false ∧ eq = .bool false ∧ gt = .bool true) := by
  simp only [binop_iface _ hc rfl, binop_iface _ hc' rfl]
  rcases py_trichotomy ka kb with ⟨a, b, c⟩ | ⟨a, b, c⟩ | ⟨a, b, c⟩ <;> simp [a, b, c]

theorem C12_lt_irrefl (i : Nat) (k : Key) : binop methodPy .lt (.iface i k) (.iface i k) = .bool false := by
  rw [binop_iface .lt (fun _ => rfl) rfl]
  congr 1
  cases h : pyOp .lt k k with
  | false => rfl
  | true => exact absurd ((py_lt_iff k k).mp h) (tupleLt_irrefl k)

theorem C12_lt_trans (i j l : Nat) (ka kb kc : Key)
    (h1c : Coh (.iface i ka) (.iface j kb)) (h2c : Coh (.iface j kb) (.iface l kc)) (h3c : Coh (.iface i ka) (.iface l kc))
    (h1 : binop methodPy .lt (.iface i ka) (.iface j kb) = .bool true)
    (h2 : binop methodPy .lt (.iface j kb) (.iface l kc) = .bool true) :
    binop methodPy .lt (.iface i ka) (.iface l kc) = .bool true := by
  rw [binop_iface .lt h1c rfl] at h1; rw [binop_iface .lt h2c rfl] at h2; rw [binop_iface .lt h3c rfl]
  congr 1
  exact pyOp_lt_trans (by simpa using h1) (by simpa using h2)

/-- `<=` is `<` or `==`; `>`/`>=` are the converses; `!=` is the negation of `==`; reflected comparisons agree -/
theorem C12_derived (i j : Nat) (ka kb : Key) (hc : Coh (.iface i ka) (.iface j kb)) (hc' : Coh (.iface j kb) (.iface i ka)) :
    binop methodPy .le (.iface i ka) (.iface j kb) = .bool (pyOp .lt ka kb || pyOp .eq ka kb) ∧
    binop methodPy .gt (.iface i ka) (.iface j kb) = binop methodPy .lt (.iface j kb) (.iface i ka) ∧
    binop methodPy .ge (.iface i ka) (.iface j kb) = binop methodPy .le (.iface j kb) (.iface i ka) ∧
    binop methodPy .ne (.iface i ka) (.iface j kb) = .bool (!pyOp .eq ka kb) := by
  simp only [binop_iface _ hc rfl, binop_iface _ hc' rfl, pyOp_le, pyOp_gt, pyOp_ge, pyOp_ne, and_self]

/-- every interface and every class specification sorts before `None`, with every operator, both ways round -/
theorem C12_none_last (x : Operand) (hx : x.isSpec = true) :
    binop methodPy .lt x .none = .bool true ∧ binop methodPy .le x .none = .bool true ∧
    binop methodPy .gt x .none = .bool false ∧ binop methodPy .ge x .none = .bool false ∧
    binop methodPy .eq x .none = .bool false ∧ binop methodPy .ne x .none = .bool true ∧
    binop methodPy .lt .none x = .bool false ∧ binop methodPy .le .none x = .bool false ∧
    binop methodPy .gt .none x = .bool true ∧ binop methodPy .ge .none x = .bool true ∧
    binop methodPy .eq .none x = .bool false ∧ binop methodPy .ne .none x = .bool true := by
  cases x <;> simp [Operand.isSpec] at hx <;>
    simp [binop, methodPy, objectMethod, mixinCompare, Operand.same, Operand.ident, swapOp, intOp]

/-- interfaces and class specifications are ordered together by the same key … -/
theorem C12_mixed_order (a b : Operand) (ka kb : Key) (ha : a.isSpec = true) (hb : b.isSpec = true)
    (hka : a.key? = some ka) (hkb : b.key? = some kb) (hc : Coh a b) (op : Cmp)
    (hop : op = .lt ∨ op = .le ∨ op = .gt ∨ op = .ge) :
    binop methodPy op a b = .bool (pyOp op ka kb) := by
  cases a with
  | iface i k => simp only [Operand.key?] at hka; cases hka; exact binop_iface op hc hkb
  | impl i k =>
    simp only [Operand.key?] at hka; cases hka
    have : methodPy op (.impl i ka) b = (mixinCompare (.impl i ka) b ka).map (intOp op) := by
      rcases hop with h | h | h | h <;> subst h <;> rfl
    unfold binop
    rw [this, mixin_keyed hc rfl hkb]; rfl
  | _ => simp [Operand.isSpec] at ha

/-- … while class specifications keep identity equality -/
theorem C12_impl_identity (i j : Nat) (ka kb : Key) :
    binop methodPy .eq (.impl i ka) (.impl j kb) = .bool (decide (i = j)) ∧
    binop methodPy .ne (.impl i ka) (.impl j kb) = .bool (decide (i ≠ j)) := by
  by_cases h : i = j
  · subst h; simp [binop, methodPy, objectMethod, Operand.same, Operand.ident]
  · have h' : ¬ j = i := fun e => h e.symm
    simp [binop, methodPy, objectMethod, Operand.same, Operand.ident, swapOp, h, h']

/-! ## both implementations -/
theorem ib_eq_py {i : Nat} {k : Key} (op : Cmp) (b : Operand) (hc : Coh (.iface i k) b) :
    ibRichcompare op (.iface i k) b k = methodPy op (.iface i k) b := by
  by_cases hs : (Operand.iface i k).same b = true
  · have := hc hs; subst this
    rw [methodPy_iface op (fun _ => rfl) rfl, pyOp_self]
    unfold ibRichcompare
    cases op <;> simp [hs, intOp, Operand.key?, cOp, strOp]
  · cases b with
    | none => cases op <;> simp [ibRichcompare, methodPy, mixinCompare, Operand.same, Operand.ident, intOp]
    | plain j =>
      have hs' : (Operand.iface i k).same (.plain j) = false := by simpa using hs
      cases op <;> simp [ibRichcompare, methodPy, mixinCompare, hs', Operand.key?]
    | iface j kb =>
      have hs' : (Operand.iface i k).same (.iface j kb) = false := by simpa using hs
      rw [methodPy_iface op hc rfl, ← c_eq_py]
      cases op <;> simp [ibRichcompare, hs', Operand.key?]
    | impl j kb =>
      have hs' : (Operand.iface i k).same (.impl j kb) = false := by simpa using hs
      rw [methodPy_iface op hc rfl, ← c_eq_py]
      cases op <;> simp [ibRichcompare, hs', Operand.key?]
    | foreign j kb =>
      have hs' : (Operand.iface i k).same (.foreign j kb) = false := by simpa using hs
      rw [methodPy_iface op hc rfl, ← c_eq_py]
      cases op <;> simp [ibRichcompare, hs', Operand.key?]

theorem methodC_eq_py (op : Cmp) (a b : Operand) (hc : Coh a b) : methodC op a b = methodPy op a b := by
  cases a with
  | iface i k => exact ib_eq_py op b hc
  | _ => rfl

/-- **C12_twin**: every comparison gives the same result (value, or `TypeError`) with the C accelerator and with the
Python reference, for all operands whose `__name__`/`__module__` are strings -/
theorem C12_twin (op : Cmp) (a b : Operand) (hab : Coh a b) (hba : Coh b a) :
    binop methodC op a b = binop methodPy op a b := by
  unfold binop
  rw [methodC_eq_py op a b hab, methodC_eq_py (swapOp op) b a hba]

/-! ## sorting -/
def keyLt (a b : Option Key) : Bool :=
  match a, b with
  | some _, Option.none => true
  | some x, some y => decide (tupleLt x y)
  | Option.none, _ => false

/-- what `sorted` sees is a function of the keys alone — no identities, addresses or hashes -/
theorem C12_lt_by_key (a b : Operand) (ha : a.isSpec = true ∨ a = .none) (hb : b.isSpec = true ∨ b = .none)
    (hc : Coh a b) : ltB methodPy a b = keyLt (sortKey a) (sortKey b) := by
  rcases hb with hb | hb
  · rcases ha with ha | ha
    · obtain ⟨ka, hka⟩ : ∃ ka, a.key? = some ka := by cases a <;> simp_all [Operand.isSpec, Operand.key?]
      obtain ⟨kb, hkb⟩ : ∃ kb, b.key? = some kb := by cases b <;> simp_all [Operand.isSpec, Operand.key?]
      have hsa : sortKey a = some ka := by cases a <;> simp_all [sortKey, Operand.isSpec]
      have hsb : sortKey b = some kb := by cases b <;> simp_all [sortKey, Operand.isSpec]
      unfold ltB
      rw [C12_mixed_order a b ka kb ha hb hka hkb hc .lt (Or.inl rfl), hsa, hsb]
      simp only [keyLt]
      by_cases h : tupleLt ka kb
      · simp [h, (py_lt_iff ka kb).mpr h]
      · have : pyOp .lt ka kb = false := by
          cases hp : pyOp .lt ka kb with
          | false => rfl
          | true => exact absurd ((py_lt_iff ka kb).mp hp) h
        simp [h, this]
    · subst ha
      have := (C12_none_last b hb).2.2.2.2.2.2.1
      cases b <;> simp_all [ltB, sortKey, keyLt, Operand.isSpec]
  · subst hb
    rcases ha with ha | ha
    · have := (C12_none_last a ha).1
      cases a <;> simp_all [ltB, sortKey, keyLt, Operand.isSpec, Operand.key?]
    · subst ha; simp [ltB, binop, methodPy, objectMethod, swapOp, sortKey, keyLt]

theorem keyLt_irrefl (a : Option Key) : keyLt a a = false := by
  cases a <;> simp [keyLt, tupleLt_irrefl]
theorem keyLt_trans {a b c : Option Key} (h1 : keyLt a b = true) (h2 : keyLt b c = true) : keyLt a c = true := by
  cases a <;> cases b <;> cases c <;> simp_all [keyLt]
  exact tupleLt_trans h1 h2
theorem keyLt_total {a b : Option Key} (h1 : keyLt a b = false) (h2 : keyLt b a = false) : a = b := by
  cases a <;> cases b <;> simp_all [keyLt]
  rename_i x y
  rcases tupleLt_trichotomy x y with h | h | h
  · exact absurd h h1
  · exact h
  · exact absurd h h2

section sort
variable (lt : Operand → Operand → Bool)

theorem insertSorted_perm (x : Operand) (l : List Operand) : (insertSorted lt x l).Perm (x :: l) := by
  induction l with
  | nil => exact List.Perm.refl _
  | cons y ys ih =>
    unfold insertSorted
    split
    · exact (List.Perm.cons y ih).trans (List.Perm.swap x y ys)
    · exact List.Perm.refl _

theorem sortModel_perm (l : List Operand) : (sortModel lt l).Perm l := by
  induction l with
  | nil => exact List.Perm.refl _
  | cons x xs ih =>
    show (insertSorted lt x (sortModel lt xs)).Perm (x :: xs)
    exact (insertSorted_perm lt x _).trans (List.Perm.cons x ih)
end sort

/-- `b` does not sort strictly before `a` -/
def NotAfter (a b : Operand) : Prop := keyLt (sortKey b) (sortKey a) = false

theorem insertSorted_sorted (x : Operand) (l : List Operand) (hs : l.Pairwise NotAfter) :
    (insertSorted (fun a b => keyLt (sortKey a) (sortKey b)) x l).Pairwise NotAfter := by
  induction l with
  | nil => simp [insertSorted]
  | cons y ys ih =>
    unfold insertSorted
    have hy := List.pairwise_cons.mp hs
    split
    · rename_i hlt
      refine List.pairwise_cons.mpr ⟨?_, ih hy.2⟩
      intro z hz
      have hz' := (insertSorted_perm _ x ys).subset hz
      rcases List.mem_cons.mp hz' with rfl | hz'
      · show keyLt (sortKey z) (sortKey y) = false
        cases h : keyLt (sortKey z) (sortKey y) with
        | false => rfl
        | true => have := keyLt_trans hlt h; rw [keyLt_irrefl] at this; exact absurd this (by simp)
      · exact hy.1 z hz'
    · rename_i hnlt
      have hnlt : keyLt (sortKey y) (sortKey x) = false := by simpa using hnlt
      refine List.pairwise_cons.mpr ⟨?_, hs⟩
      intro z hz
      rcases List.mem_cons.mp hz with rfl | hz
      · exact hnlt
      · show keyLt (sortKey z) (sortKey x) = false
        cases h : keyLt (sortKey z) (sortKey x) with
        | false => rfl
        | true =>
          have h1 := hy.1 z hz       -- keyLt z y = false
          -- y ≤ x is false-lt and z < x; if y and z … use totality
          by_cases hyz : keyLt (sortKey y) (sortKey z) = true
          · have := keyLt_trans hyz h; rw [hnlt] at this; exact absurd this (by simp)
          · have heq := keyLt_total (by simpa using hyz) h1
            rw [heq] at hnlt; rw [hnlt] at h; exact absurd h (by simp)

/-- **C12_sort**: sorting any mixed collection of interfaces, class specifications and `None` gives a permutation of
the input that is ordered by `(name, module)` with `None` last, and is computed from the keys alone -/
theorem C12_sort (l : List Operand) (hl : ∀ a ∈ l, a.isSpec = true ∨ a = .none)
    (hc : ∀ a ∈ l, ∀ b ∈ l, Coh a b) :
    sortModel (ltB methodPy) l = sortModel (fun a b => keyLt (sortKey a) (sortKey b)) l ∧
    (sortModel (ltB methodPy) l).Perm l ∧ (sortModel (ltB methodPy) l).Pairwise NotAfter := by
  have key : ∀ l' : List Operand, (∀ a ∈ l', a ∈ l) →
      sortModel (ltB methodPy) l' = sortModel (fun a b => keyLt (sortKey a) (sortKey b)) l' := by
    intro l'
    induction l' with
    | nil => intro _; rfl
    | cons x xs ih =>
      intro hsub
      have ihx := ih (fun a ha => hsub a (List.mem_cons_of_mem _ ha))
      show insertSorted _ x (sortModel _ xs) = insertSorted _ x (sortModel _ xs)
      rw [ihx]
      have hmem : ∀ y ∈ sortModel (fun a b => keyLt (sortKey a) (sortKey b)) xs, y ∈ l := fun y hy =>
        hsub y (List.mem_cons_of_mem _ ((sortModel_perm _ xs).subset hy))
      have hx : x ∈ l := hsub x (List.mem_cons_self ..)
      generalize sortModel (fun a b => keyLt (sortKey a) (sortKey b)) xs = s at hmem
      induction s with
      | nil => rfl
      | cons y ys ihs =>
        have hy : y ∈ l := hmem y (List.mem_cons_self ..)
        unfold insertSorted
        rw [C12_lt_by_key y x (hl y hy) (hl x hx) (hc y hy x hx), ihs (fun z hz => hmem z (List.mem_cons_of_mem _ hz))]
  have e := key l (fun a ha => ha)
  refine ⟨e, sortModel_perm _ l, ?_⟩
  rw [e]
  clear e key hc hl
  induction l with
  | nil => exact List.Pairwise.nil
  | cons x xs ih => exact insertSorted_sorted x _ ih

/-- the premises are satisfiable by a non-trivial collection: equal names in different modules, a prefix-related
name, a class specification and `None` -/
example : let l := [Operand.none, .iface 1 ("IB", "m"), .impl 2 ("m.C", "zope.interface.declarations"), .iface 3 ("I", "n"), .iface 4 ("I", "m")]
    sortModel (ltB methodPy) l = [.iface 4 ("I", "m"), .iface 3 ("I", "n"), .iface 1 ("IB", "m"),
      .impl 2 ("m.C", "zope.interface.declarations"), .none] := by decide
end ZI.Order
