import ZI.Props.C16Hist
/-! # C16 — the one event that is delivered in the middle of a call

Every `notify(...)` of `registry.py` is the last statement of the call that emits it, so a call made by an event subscriber from
inside the delivery takes effect after the call that sent the event: the two compose like consecutive calls of a history, and the
history theorems of C16Hist apply as they stand.  The exception is `registerUtility` over an existing, different utility: it calls
`unregisterUtility(old)` — whose `Unregistered` event is delivered there and then — and registers afterwards.

`registerUtility_split`: the model's replacing `registerUtility` IS `unregisterUtility old` followed by `registerUtility` on the state
that leaves (events concatenated).  So when a subscriber's call `f` runs at that `Unregistered` event the outcome is
`unregisterUtility old ; f ; registerUtility` — three consecutive calls of a history, which is how the driver (`Drv/Components.lean`,
`nest|U`) and the oracle (`virtualise`) compose them, and what repair 7054408 made the real `registerUtility` do (it looks at the
slot again after the event instead of overwriting whatever the subscriber registered). -/
namespace ZI.Components
open ZI ZI.Registry

theorem utilRegs_cacheUnregister (s : Comp) (p : Id) (name : String) (c : C) :
    (cacheUnregister s p name c).1.utilRegs = AList.erase s.utilRegs (p, name) := by
  unfold cacheUnregister
  simp only []
  split
  · rfl
  · split <;> rfl

theorem get?_erase_self {α : Type} (m : AList (Id × String) α) (k : Id × String) : AList.get? (AList.erase m k) k = none := by
  unfold AList.get? AList.erase
  have : (m.filter (fun p => !(p.1 == k))).find? (·.1 == k) = none := by
    rw [List.find?_eq_none]
    intro x hx
    have := (List.mem_filter.mp hx).2
    simpa using this
  rw [this]; rfl

theorem slot_main (s : Comp) (p : Id) (name : String) (cu : Comp × Bool) (evs : List Ev)
    (h1 : cu.1.utilRegs = AList.erase s.utilRegs (p, name)) :
    (if cu.2 = true then (cu.1, "True", evs) else (cu.1, "TypeError", ([] : List Ev))).2.1 = "True" →
    AList.get? (if cu.2 = true then (cu.1, "True", evs) else (cu.1, "TypeError", ([] : List Ev))).1.utilRegs (p, name) = none := by
  obtain ⟨s1, ok⟩ := cu
  cases ok with
  | true => intro _; simp only [if_true]; rw [h1]; exact get?_erase_self _ _
  | false => simp

/-- an `unregisterUtility` that removed something leaves the slot free -/
theorem slot_free_of_unregistered' (s : Comp) (c : Option C) (p : Id) (name : String) :
    (unregisterUtility s c p name).2.1 = "True" →
    AList.get? (unregisterUtility s c p name).1.utilRegs (p, name) = none := by
  unfold unregisterUtility unregisterUtilityV
  cases hg : AList.get? s.utilRegs (p, name) with
  | none => simp
  | some old =>
    have hmain := slot_main s p name (cacheUnregister s p name old.1) [Ev.unregistered "Utility"] (utilRegs_cacheUnregister s p name old.1)
    cases c with
    | none => simpa using hmain
    | some c0 =>
      cases he : c0.eq old.1 with
      | false => simp [he]
      | true => simpa [he] using hmain

theorem slot_free_of_unregistered (s : Comp) (c : Option C) (p : Id) (name : String)
    (hok : (unregisterUtility s c p name).2.1 = "True") :
    AList.get? (unregisterUtility s c p name).1.utilRegs (p, name) = none :=
  slot_free_of_unregistered' s c p name hok

/-- a replacing `registerUtility` = `unregisterUtility old`, then `registerUtility` on what that leaves -/
theorem registerUtility_split (s : Comp) (c : C) (p : Id) (name info : String) (reg : C × String)
    (h : AList.get? s.utilRegs (p, name) = some reg) (hne : (reg.1.eq c && reg.2 == info) = false)
    (hok : (unregisterUtility s (some reg.1) p name).2.1 = "True") :
    registerUtility s c p name info =
      ((registerUtility (unregisterUtility s (some reg.1) p name).1 c p name info).1,
       (registerUtility (unregisterUtility s (some reg.1) p name).1 c p name info).2.1,
       (unregisterUtility s (some reg.1) p name).2.2 ++ (registerUtility (unregisterUtility s (some reg.1) p name).1 c p name info).2.2) := by
  have hfree := slot_free_of_unregistered s (some reg.1) p name hok
  conv => lhs; unfold registerUtility
  rw [h]
  simp only [hne, Bool.false_eq_true, if_false]
  rcases hu : unregisterUtility s (some reg.1) p name with ⟨s1, r1, e1⟩
  rw [hu] at hfree hok
  simp only [] at hfree hok
  subst hok
  simp only [show ("True" == "TypeError") = false by decide, Bool.false_eq_true, if_false]
  unfold registerUtility
  rw [hfree]

end ZI.Components
