import ZI.Registry
/-! # C09 — registration bookkeeping reflects exactly the net effect of the history

Proved here, on the nested containers of the registry model that is compared with the real code (`ZI.Registry.Level`,
`Level.update` = the create-and-descend walk of `register` / `subscribe`, `Level.remove` = the walk of `unregister` /
`unsubscribe` with pruning of emptied containers): the containers refine a flat map from key paths to leaves —
`find_update`: after an update only the addressed path changes (a missing leaf counts as empty);
`find_remove`: after a removal the addressed leaf becomes `f a` or disappears if that is empty, every other path is
unchanged; `remove_flag`: a container reported emptied really has no children, so erasing it loses no sibling.
(The proofs are those of `ZI/LevelLaws.lean`, re-done for the model's own container type.) -/
namespace ZI.Registry
open ZI.RO

theorem kget_nil {α} (k : K) : AList.get? ([] : AList K α) k = none := rfl

theorem kget_cons {α} (p : K × α) (m : AList K α) (k : K) :
    AList.get? (p :: m) k = if p.1 = k then some p.2 else AList.get? m k := by
  unfold AList.get?
  simp only [List.find?_cons]
  by_cases h : p.1 = k
  · simp [h]
  · have : (p.1 == k) = false := by simpa using h
    simp [h, this]

theorem kget_append {α} (m m' : AList K α) (k : K) : AList.get? (m ++ m') k = (AList.get? m k).or (AList.get? m' k) := by
  induction m with
  | nil => simp [kget_nil]
  | cons p t ih =>
    simp only [List.cons_append, kget_cons]
    by_cases h : p.1 = k <;> simp [h, ih]

theorem kget_set {α} (m : AList K α) (k : K) (v : α) (k' : K) :
    AList.get? (AList.set m k v) k' = if k = k' then some v else AList.get? m k' := by
  unfold AList.set
  split
  · rename_i hany
    induction m with
    | nil => simp at hany
    | cons p t ih =>
      simp only [List.map_cons, kget_cons]
      by_cases hp : p.1 = k
      · have hb : (p.1 == k) = true := by simpa using hp
        simp only [hb, if_true]
        by_cases hk : k = k'
        · simp [hk]
        · have hpk : ¬ p.1 = k' := by rw [hp]; exact hk
          simp only [hk, hpk, if_false]
          -- the tail is rewritten too, but `k'` is not `k`
          clear ih hany
          induction t with
          | nil => rfl
          | cons q t iht =>
            simp only [List.map_cons, kget_cons]
            by_cases hq : q.1 = k
            · have hqb : (q.1 == k) = true := by simpa using hq
              have hqk : ¬ q.1 = k' := by rw [hq]; exact hk
              simp only [hqb, if_true, hk, hqk, if_false]; exact iht
            · have hqb : (q.1 == k) = false := by simpa using hq
              simp only [hqb, Bool.false_eq_true, if_false]
              by_cases hq' : q.1 = k'
              · simp [hq']
              · simp only [hq', if_false]; exact iht
      · have hb : (p.1 == k) = false := by simpa using hp
        simp only [hb, Bool.false_eq_true, if_false]
        have hany' : t.any (fun x => x.1 == k) = true := by
          simp only [List.any_cons, hb, Bool.false_or] at hany; exact hany
        by_cases hp' : p.1 = k'
        · have : ¬ k = k' := by intro e; exact hp (hp'.trans e.symm)
          simp [hp', this]
        · simp only [hp', if_false]; exact ih hany'
  · rename_i hany
    have hnone : AList.get? m k = none := by
      unfold AList.get?
      have : m.find? (fun x => x.1 == k) = none := List.find?_eq_none.mpr (fun x hx => by
        intro h; exact hany (List.any_eq_true.mpr ⟨x, hx, h⟩))
      simp [this]
    rw [kget_append, kget_cons, kget_nil]
    by_cases hk : k = k'
    · subst hk; simp [hnone]
    · simp only [hk, if_false]
      cases AList.get? m k' <;> simp

theorem kget_erase {α} (m : AList K α) (k k' : K) :
    AList.get? (AList.erase m k) k' = if k = k' then none else AList.get? m k' := by
  unfold AList.erase
  induction m with
  | nil => by_cases h : k = k' <;> simp [h, kget_nil]
  | cons p t ih =>
    simp only [List.filter_cons]
    by_cases hp : p.1 = k
    · have hb : (p.1 == k) = true := by simpa using hp
      simp only [hb, Bool.not_true, Bool.false_eq_true, if_false, ih, kget_cons]
      by_cases hk : k = k'
      · simp [hk]
      · have : ¬ p.1 = k' := by rw [hp]; exact hk
        simp [hk, this]
    · have hb : (p.1 == k) = false := by simpa using hp
      simp only [hb, Bool.not_false, if_true, kget_cons, ih]
      by_cases hk : k = k'
      · subst hk; simp [hp]
      · simp [hk]

@[simp] theorem leafOf_mkLeaf' {α} (a : α) : leafOf (mkLeaf a) = a := rfl
@[simp] theorem kidsOf_mkNode' {α} {n : Nat} (m : AList K (Level α n)) : kidsOf (mkNode m) = m := rfl

theorem find_empty_succ {α} (e : α) (n : Nat) (p : List K) : Level.find (n+1) (Level.empty e (n+1)) p = none := by
  cases p with
  | nil => rfl
  | cons k ks => simp [Level.find, Level.empty, AList.get?, kidsOf, mkNode]

/-- what `update` does to `find`: only the addressed leaf changes (a missing leaf counts as `e`) -/
theorem find_update {α} (e : α) (f : α → α) : ∀ (n : Nat) (t : Level α n) (path path' : List K),
    path.length = n → path'.length = n →
    Level.find n (Level.update e f n t path) path' =
      if path' = path then some (f ((Level.find n t path).getD e))
      else Level.find n t path' := by
  intro n
  induction n with
  | zero =>
    intro t path path' h h'
    have : path = [] := by cases path <;> simp_all
    have : path' = [] := by cases path' <;> simp_all
    subst_vars
    simp [Level.update, Level.find]
  | succ n ih =>
    intro t path path' h h'
    cases path with
    | nil => simp at h
    | cons k ks =>
      cases path' with
      | nil => simp at h'
      | cons k' ks' =>
        have hks : ks.length = n := by simpa using h
        have hks' : ks'.length = n := by simpa using h'
        simp only [Level.update, Level.find, kidsOf_mkNode', kget_set]
        by_cases hk : k = k'
        · subst hk
          simp only [if_true, Option.bind_some, List.cons.injEq, true_and]
          rw [ih _ ks ks' hks hks']
          cases hg : AList.get? (kidsOf t) k with
          | some c =>
            simp only [Option.getD_some, Option.bind_some]
          | none =>
            simp only [Option.getD_none, Option.bind_none]
            by_cases he : ks' = ks
            · subst he
              cases n with
              | zero =>
                have : ks' = [] := by cases ks' <;> simp_all
                subst this
                simp [Level.find, Level.empty]
              | succ m => simp [find_empty_succ]
            · simp only [he, if_false]
              cases n with
              | zero =>
                have h1 : ks = [] := by cases ks <;> simp_all
                have h2 : ks' = [] := by cases ks' <;> simp_all
                exact absurd (h2.trans h1.symm) he
              | succ m => exact find_empty_succ e m ks'
        · have : ¬ (k' :: ks' = k :: ks) := by intro he; injection he with e1 _; exact hk e1.symm
          simp [hk, this]


theorem remove_step_none {α} (isEmpty : α → Bool) (f : α → α) (n : Nat) (m : Level α (n+1)) (k : K) (ks : List K)
    (hg : AList.get? (kidsOf m) k = none) : Level.remove isEmpty f (n+1) m (k :: ks) = (m, false) := by
  conv => lhs; unfold Level.remove
  simp only [hg]

theorem remove_step_some {α} (isEmpty : α → Bool) (f : α → α) (n : Nat) (m : Level α (n+1)) (k : K) (ks : List K)
    (child : Level α n) (hg : AList.get? (kidsOf m) k = some child) :
    Level.remove isEmpty f (n+1) m (k :: ks) =
      (mkNode (if (Level.remove isEmpty f n child ks).2 then AList.erase (kidsOf m) k
               else AList.set (kidsOf m) k (Level.remove isEmpty f n child ks).1),
       (Level.remove isEmpty f n child ks).2 &&
         (if (Level.remove isEmpty f n child ks).2 then AList.erase (kidsOf m) k
          else AList.set (kidsOf m) k (Level.remove isEmpty f n child ks).1).isEmpty) := by
  conv => lhs; unfold Level.remove
  simp only [hg]

theorem remove_flag {α} (isEmpty : α → Bool) (f : α → α) (n : Nat) (t : Level α (n+1)) (path : List K)
    (h : (Level.remove isEmpty f (n+1) t path).2 = true) : kidsOf (Level.remove isEmpty f (n+1) t path).1 = [] := by
  cases path with
  | nil => simp [Level.remove] at h
  | cons k ks =>
    cases hg : AList.get? (kidsOf t) k with
    | none => rw [remove_step_none _ _ _ _ _ _ hg] at h; simp at h
    | some child =>
      rw [remove_step_some _ _ _ _ _ _ child hg] at h ⊢
      simp only [Bool.and_eq_true] at h
      simp only [kidsOf_mkNode']
      exact List.isEmpty_iff.mp h.2

theorem find_of_no_kids {α} {n : Nat} {m : Level α (n+1)} (h : kidsOf m = []) (p : List K) :
    Level.find (n+1) m p = none := by
  cases p with
  | nil => rfl
  | cons k ks => simp [Level.find, h, kget_nil]

/-- what `remove` does to `find`: the addressed leaf becomes `f a`, or disappears if that is empty; nothing else
changes — pruning an emptied container never loses a sibling. -/
theorem find_remove {α} (isEmpty : α → Bool) (f : α → α) : ∀ (n : Nat) (t : Level α (n+1)) (path path' : List K),
    path.length = n+1 → path'.length = n+1 →
    Level.find (n+1) (Level.remove isEmpty f (n+1) t path).1 path' =
      if path' = path then (Level.find (n+1) t path).bind fun a => if isEmpty (f a) then none else some (f a)
      else Level.find (n+1) t path' := by
  intro n
  induction n with
  | zero =>
    intro t path path' h h'
    obtain ⟨k, rfl⟩ : ∃ k, path = [k] := by
      cases path with
      | nil => simp at h
      | cons k ks => cases ks with
        | nil => exact ⟨k, rfl⟩
        | cons _ _ => simp at h
    obtain ⟨k', rfl⟩ : ∃ k', path' = [k'] := by
      cases path' with
      | nil => simp at h'
      | cons k ks => cases ks with
        | nil => exact ⟨k, rfl⟩
        | cons _ _ => simp at h'
    simp only [Level.remove, Level.find]
    cases hg : AList.get? (kidsOf t) k with
    | none =>
      by_cases hk : k' = k
      · subst hk; simp [hg]
      · simp [hk]
    | some child =>
      simp only [leafOf_mkLeaf']
      by_cases hempty : isEmpty (f (leafOf child)) = true
      · simp only [hempty, if_true, kidsOf_mkNode', kget_erase]
        by_cases hk : k = k'
        · subst hk; simp [hg, Level.find, hempty]
        · have : ¬ ([k'] = [k]) := by intro e; injection e with e1; exact hk e1.symm
          simp [hk, this]
      · simp only [hempty, Bool.false_eq_true, if_false, kidsOf_mkNode', kget_set]
        by_cases hk : k = k'
        · subst hk; simp [hg, Level.find, hempty]
        · have : ¬ ([k'] = [k]) := by intro e; injection e with e1; exact hk e1.symm
          simp [hk, this]
  | succ n ih =>
    intro t path path' h h'
    cases path with
    | nil => simp at h
    | cons k ks =>
      cases path' with
      | nil => simp at h'
      | cons k' ks' =>
        have hks : ks.length = n+1 := by simpa using h
        have hks' : ks'.length = n+1 := by simpa using h'
        have hfindt : ∀ (x : List K) (c : Level α (n+1)), AList.get? (kidsOf t) k = some c →
            Level.find (n+2) t (k :: x) = Level.find (n+1) c x := by
          intro x c hc; simp [Level.find, hc]
        cases hg : AList.get? (kidsOf t) k with
        | none =>
          rw [remove_step_none _ _ _ _ _ _ hg]
          by_cases he : k' :: ks' = k :: ks
          · injection he with e1 e2; subst e1; subst e2
            simp [Level.find, hg]
          · simp [he]
        | some child =>
          rw [remove_step_some _ _ _ _ _ _ child hg]
          have ihc := ih child ks ks' hks hks'
          by_cases hk : k = k'
          · subst hk
            rw [hfindt ks' child hg, hfindt ks child hg]
            have hcond : (k :: ks' = k :: ks) ↔ ks' = ks := by
              constructor
              · intro e; injection e
              · intro e; rw [e]
            by_cases hr : (Level.remove isEmpty f (n+1) child ks).2 = true
            · -- the child became empty and is erased
              simp only [hr, if_true]
              have hnone : Level.find (n+2) (mkNode (AList.erase (kidsOf t) k)) (k :: ks') = none := by
                simp [Level.find, kget_erase]
              rw [hnone]
              have hz := find_of_no_kids (remove_flag isEmpty f n child ks hr) ks'
              rw [hz] at ihc
              by_cases he : ks' = ks
              · simp only [he, if_true] at ihc ⊢; exact ihc
              · simp only [he, if_false, hcond] at ihc ⊢; exact ihc
            · simp only [hr, Bool.false_eq_true, if_false]
              have hf2 : Level.find (n+2) (mkNode (AList.set (kidsOf t) k (Level.remove isEmpty f (n+1) child ks).1)) (k :: ks') =
                  Level.find (n+1) (Level.remove isEmpty f (n+1) child ks).1 ks' := by
                simp [Level.find, kget_set]
              rw [hf2, ihc]
              by_cases he : ks' = ks
              · simp [he]
              · simp [he, hcond]
          · have hne : ¬ (k' :: ks' = k :: ks) := by intro e; injection e with e1 _; exact hk e1.symm
            simp only [hne, if_false]
            by_cases hr : (Level.remove isEmpty f (n+1) child ks).2 = true
            · simp [hr, Level.find, kget_erase, hk]
            · simp [hr, Level.find, kget_set, hk]


end ZI.Registry
