import ZI.Props.C09
import ZI.Props.C06
import Batteries.Tactic.OpenPrivate
/-! # C09 (whole registry) — the nested registration containers of a registry refine a flat map

Python code this is about: `zope.interface.adapter.BaseAdapterRegistry` — `_adapters` / `_subscribers` (one nested dict
per arity: `byorder[len(required)][required[0]]…[provided]` = `{name: value}` resp. a tuple of subscribers), the
reference-count dict `_provided`, the mutators `register`, `unregister`, `subscribe`, `unsubscribe`, the queries
`registered`, `subscribed`, `allRegistrations`, `allSubscriptions`, and `rebuild()`.  Model: `ZI/Registry.lean` (not
modified).  `ZI/Props/C09.lean` proved the laws of ONE nested container; this file lifts them to whole registries, whole
worlds of registries and whole histories (C06's `Op` / `step` / `run`).

What is proved (all names in `ZI.Registry`):

1. *Frames* — `SameData w w'`: every registry has the same `adapters`, `subs`, `provided`, `extendors`.
   `changed_sameData` (both flavours, any cascade depth), `verifyingChanged_sameData`, `verifyingChangedBase_sameData`,
   `clearCaches_sameData`, and also `verify`, `setBasesOwn`, `moveSubreg`, `setBasesPush`, `setBases`, `lookup`,
   `lookupAll`, `subscriptions`.
2. *Arity list* — `getOrder_setOrder_same9 : getOrder e (setOrder l n t) n = t` (no cast left),
   `getOrder_setOrder_ne9`, `any_setOrder`, `orders_setOrder`, `nodup_setOrder`.
3. *Read-after-write, the refinement to a flat map keyed by `(registry, required.map convNone, provided, name)`* —
   `registered_register`, `registered_register_self`, `registered_unregister`, `unregister_noop`;
   `subsFind_subscribe` / `subsLeaf_subscribe`, `subsLeaf_unsubscribe`, `subsFind_unsubscribe_other`; the two families do
   not interfere (`subsFind_register`, `subsFind_unregister`, `registered_subscribe`, `registered_unsubscribe`);
   `subscribed_eq` (`subscribed()` is a membership test on the leaf).  No hypothesis on the world at all.
4. *`_provided`* — `provCount x p` (specification, read off the enumeration `_allKeys`): number of `(path, name)` bindings
   whose path ends in `p` + total length of the subscriber leaves whose path ends in `p`.
   `C09_provided`: after any history from the empty world in which no `register` REPLACES a different object under an
   occupied key (`RegisterGuard`), `_provided.get(p, 0) = provCount` for every registry and `p`, and no stored count is 0.
   The guard is necessary (`provided_leak`: the code increments the count again when it overwrites a value).
   `C09_provided_le` (no guard, ALL histories): containers well-formed (`RegWF`: one container per arity, unique keys in
   every dict, unique names in every leaf; `RegKeys`: spec keys only) and `provCount ≤ _provided.get(p, 0)`, no stored 0.
   `C09_pruned` (all histories): no empty dict / leaf is left inside the containers (`RegNE`).
5. *Enumerations* — `mem_allRegistrations_iff`, `allRegistrations_registered`: a tuple is yielded iff `registered` reads
   that value under that key; `allSubscriptions_leaf`: the enumeration restricted to one key IS the subscription leaf
   (same order, same multiplicities), `mem_allSubscriptions_iff`, `count_allSubscriptions`.  These are for the real,
   SORTED enumerations: `qsort_perm` (`Array.qsort` permutes — not in core 4.33; proved here from the unfolding equations
   of its private workers, reached with `open private`) gives `sortByOrder_perm`.  Un-sorted variants: `…U…`.
6. *`rebuild()`* — for a registry with well-formed containers (`RegWF`, `RegKeys` — true after every history):
   `C09_rebuild_registered`, `C09_rebuild_subsLeaf` (lists, order included), `C09_rebuild_subsFind`; `rebuild_reg_ne`
   (other registries untouched, no hypothesis), `rebuild_winv` (the exact `_provided` invariant survives), `C09_rebuild`
   (all three, for every world reachable by ANY history — no guard).

Non-vacuity: `c09Ops` / `c09_guard` and the `example`s after them (two arities, a sibling that survives pruning, a
duplicate subscription, a no-op re-registration, a final `rebuild`). -/
namespace ZI.Registry
open ZI.RO
local notation "Id" => Nat

/-! ## 0. association lists with a lawful key equality -/
section AL
variable {κ : Type} [BEq κ] [LawfulBEq κ] [DecidableEq κ] {α : Type}
set_option linter.unusedSectionVars false

theorem aget_nil (k : κ) : AList.get? ([] : AList κ α) k = none := rfl

theorem aget_cons (p : κ × α) (m : AList κ α) (k : κ) :
    AList.get? (p :: m) k = if p.1 = k then some p.2 else AList.get? m k := by
  unfold AList.get?
  simp only [List.find?_cons]
  by_cases h : p.1 = k
  · simp [h]
  · have : (p.1 == k) = false := by simpa using h
    simp [h, this]

theorem aget_append (m m' : AList κ α) (k : κ) :
    AList.get? (m ++ m') k = (AList.get? m k).or (AList.get? m' k) := by
  induction m with
  | nil => simp [aget_nil]
  | cons p t ih =>
    simp only [List.cons_append, aget_cons]
    by_cases h : p.1 = k <;> simp [h, ih]

/-- the keys of an association list, in dict order -/
def akeys (m : AList κ α) : List κ := m.map (·.1)

theorem aget_none_of_not_mem (m : AList κ α) (k : κ) (h : k ∉ akeys m) : AList.get? m k = none := by
  induction m with
  | nil => rfl
  | cons p t ih =>
    simp only [akeys, List.map_cons, List.mem_cons, not_or] at h
    rw [aget_cons, if_neg (fun e => h.1 e.symm)]
    exact ih h.2

theorem aget_some_mem (m : AList κ α) (k : κ) (a : α) (h : AList.get? m k = some a) : (k, a) ∈ m := by
  induction m with
  | nil => simp [aget_nil] at h
  | cons p t ih =>
    rw [aget_cons] at h
    by_cases hp : p.1 = k
    · rw [if_pos hp] at h
      have : p = (k, a) := by cases p; simp only [Option.some.injEq] at h; simp_all
      rw [this]; exact List.mem_cons_self ..
    · rw [if_neg hp] at h; exact List.mem_cons_of_mem _ (ih h)

theorem aget_of_mem (m : AList κ α) (hnd : (akeys m).Nodup) (k : κ) (a : α) (h : (k, a) ∈ m) :
    AList.get? m k = some a := by
  induction m with
  | nil => cases h
  | cons p t ih =>
    simp only [akeys, List.map_cons, List.nodup_cons] at hnd
    rw [aget_cons]
    rcases List.mem_cons.mp h with e | h'
    · rw [← e, if_pos rfl]
    · have : p.1 ≠ k := by
        intro e; apply hnd.1; rw [e]; exact List.mem_map_of_mem (f := (·.1)) h'
      rw [if_neg this]; exact ih hnd.2 h'

theorem any_key_iff (m : AList κ α) (k : κ) : m.any (·.1 == k) = true ↔ k ∈ akeys m := by
  simp only [List.any_eq_true, akeys, List.mem_map, beq_iff_eq]

theorem akeys_map_set (m : AList κ α) (k : κ) (v : α) :
    akeys (m.map (fun p => if p.1 == k then (k, v) else p)) = akeys m := by
  induction m with
  | nil => rfl
  | cons p t ih =>
    simp only [akeys, List.map_cons, List.cons.injEq] at ih ⊢
    refine ⟨?_, ih⟩
    by_cases h : p.1 = k
    · simp [h]
    · have : (p.1 == k) = false := by simpa using h
      simp [this]

theorem akeys_set (m : AList κ α) (k : κ) (v : α) :
    akeys (AList.set m k v) = if k ∈ akeys m then akeys m else akeys m ++ [k] := by
  unfold AList.set
  by_cases h : m.any (·.1 == k) = true
  · rw [if_pos h, if_pos ((any_key_iff m k).mp h), akeys_map_set]
  · rw [if_neg h, if_neg (fun hm => h ((any_key_iff m k).mpr hm))]
    simp [akeys]

theorem nodup_set (m : AList κ α) (k : κ) (v : α) (h : (akeys m).Nodup) : (akeys (AList.set m k v)).Nodup := by
  rw [akeys_set]
  split
  · exact h
  · rename_i hk
    rw [List.nodup_append]
    refine ⟨h, by simp, ?_⟩
    intro a ha b hb
    simp only [List.mem_singleton] at hb
    subst hb; intro e; subst e; exact hk ha

theorem akeys_erase (m : AList κ α) (k : κ) : akeys (AList.erase m k) = (akeys m).filter (fun x => !(x == k)) := by
  unfold AList.erase akeys
  induction m with
  | nil => rfl
  | cons p t ih =>
    simp only [List.filter_cons, List.map_cons]
    by_cases h : (p.1 == k) = true
    · simp [h, ih]
    · have : (p.1 == k) = false := by simpa using h
      simp [this, ih]

theorem nodup_erase (m : AList κ α) (k : κ) (h : (akeys m).Nodup) : (akeys (AList.erase m k)).Nodup := by
  rw [akeys_erase]; exact h.sublist List.filter_sublist

theorem aget_set (m : AList κ α) (k : κ) (v : α) (k' : κ) :
    AList.get? (AList.set m k v) k' = if k = k' then some v else AList.get? m k' := by
  unfold AList.set
  split
  · rename_i hany
    induction m with
    | nil => simp at hany
    | cons p t ih =>
      simp only [List.map_cons, aget_cons]
      by_cases hp : p.1 = k
      · have hb : (p.1 == k) = true := by simpa using hp
        simp only [hb, if_true]
        by_cases hk : k = k'
        · simp [hk]
        · have hpk : ¬ p.1 = k' := by rw [hp]; exact hk
          simp only [hk, hpk, if_false]
          clear ih hany
          induction t with
          | nil => rfl
          | cons q t iht =>
            simp only [List.map_cons, aget_cons]
            by_cases hq : q.1 = k
            · have hqb : (q.1 == k) = true := by simpa using hq
              have hqk : ¬ q.1 = k' := by rw [hq]; exact hk
              simp only [hqb, if_true, hk, hqk, if_false]; exact iht
            · have hqb : (q.1 == k) = false := by simpa using hq
              simp only [hqb, Bool.false_eq_true, if_false]
              by_cases hq' : q.1 = k'
              · simp [hq']
              · simp only [hq', if_false]; exact iht
      · have hb : (p.1 == k) = false := by simpa using hp
        simp only [hb, Bool.false_eq_true, if_false]
        have hany' : t.any (fun x => x.1 == k) = true := by
          simp only [List.any_cons, hb, Bool.false_or] at hany; exact hany
        by_cases hp' : p.1 = k'
        · have : ¬ k = k' := by intro e; exact hp (hp'.trans e.symm)
          simp [hp', this]
        · simp only [hp', if_false]; exact ih hany'
  · rename_i hany
    have hnone : AList.get? m k = none :=
      aget_none_of_not_mem m k (fun hm => hany ((any_key_iff m k).mpr hm))
    rw [aget_append, aget_cons, aget_nil]
    by_cases hk : k = k'
    · subst hk; simp [hnone]
    · simp only [hk, if_false]
      cases AList.get? m k' <;> simp

theorem aget_erase (m : AList κ α) (k k' : κ) :
    AList.get? (AList.erase m k) k' = if k = k' then none else AList.get? m k' := by
  unfold AList.erase
  induction m with
  | nil => by_cases h : k = k' <;> simp [h, aget_nil]
  | cons p t ih =>
    simp only [List.filter_cons]
    by_cases hp : p.1 = k
    · have hb : (p.1 == k) = true := by simpa using hp
      simp only [hb, Bool.not_true, Bool.false_eq_true, if_false, ih, aget_cons]
      by_cases hk : k = k'
      · simp [hk]
      · have : ¬ p.1 = k' := by rw [hp]; exact hk
        simp [hk, this]
    · have hb : (p.1 == k) = false := by simpa using hp
      simp only [hb, Bool.not_false, if_true, aget_cons, ih]
      by_cases hk : k = k'
      · subst hk; simp [hp]
      · simp [hk]

theorem mem_set (m : AList κ α) (k : κ) (v : α) (c : κ × α) (h : c ∈ AList.set m k v) : c ∈ m ∨ c = (k, v) := by
  unfold AList.set at h
  split at h
  · obtain ⟨p, hp, e⟩ := List.mem_map.mp h
    split at e
    · exact Or.inr e.symm
    · exact Or.inl (e ▸ hp)
  · rcases List.mem_append.mp h with h | h
    · exact Or.inl h
    · exact Or.inr (by simpa using h)

theorem mem_erase (m : AList κ α) (k : κ) (c : κ × α) (h : c ∈ AList.erase m k) : c ∈ m ∧ c.1 ≠ k := by
  unfold AList.erase at h
  obtain ⟨h1, h2⟩ := List.mem_filter.mp h
  exact ⟨h1, by simpa using h2⟩

theorem erase_of_not_mem (m : AList κ α) (k : κ) (h : k ∉ akeys m) : AList.erase m k = m := by
  unfold AList.erase
  rw [List.filter_eq_self]
  intro p hp
  have : p.1 ≠ k := fun e => h (e ▸ List.mem_map_of_mem (f := (·.1)) hp)
  simpa using this

theorem erase_set (m : AList κ α) (k : κ) (v : α) : AList.erase (AList.set m k v) k = AList.erase m k := by
  unfold AList.set AList.erase
  split
  · rename_i hany; clear hany
    induction m with
    | nil => rfl
    | cons p t ih =>
      simp only [List.map_cons, List.filter_cons]
      by_cases h : p.1 = k
      · have hb : (p.1 == k) = true := by simpa using h
        simp only [hb, if_true, beq_self_eq_true, Bool.not_true, Bool.false_eq_true, if_false]; exact ih
      · have hb : (p.1 == k) = false := by simpa using h
        simp only [hb, Bool.false_eq_true, if_false, Bool.not_false, if_true]; rw [ih]
  · simp

/-- weighted sum over the bindings -/
def asum (g : κ → α → Nat) (m : AList κ α) : Nat := (m.map fun p => g p.1 p.2).sum

theorem asum_nil (g : κ → α → Nat) : asum g ([] : AList κ α) = 0 := rfl
theorem asum_cons (g : κ → α → Nat) (p : κ × α) (m : AList κ α) : asum g (p :: m) = g p.1 p.2 + asum g m := by
  simp [asum]

/-- split off the binding of one key (unique keys) -/
theorem asum_split (g : κ → α → Nat) (m : AList κ α) (hnd : (akeys m).Nodup) (k : κ) :
    asum g m = asum g (AList.erase m k) + (match AList.get? m k with | some a => g k a | none => 0) := by
  induction m with
  | nil => rfl
  | cons p t ih =>
    simp only [akeys, List.map_cons, List.nodup_cons] at hnd
    by_cases hp : p.1 = k
    · have hk : k ∉ akeys t := by rw [← hp]; exact hnd.1
      have e1 : AList.erase (p :: t) k = t := by
        have : AList.erase (p :: t) k = AList.erase t k := by
          unfold AList.erase; simp [hp]
        rw [this, erase_of_not_mem t k hk]
      rw [e1, aget_cons, if_pos hp, asum_cons, hp]; simp only []; omega
    · have hb : (p.1 == k) = false := by simpa using hp
      have e1 : AList.erase (p :: t) k = p :: AList.erase t k := by
        unfold AList.erase; simp [hb]
      rw [e1, aget_cons, if_neg hp, asum_cons, asum_cons, ih hnd.2]; omega

theorem asum_set (g : κ → α → Nat) (m : AList κ α) (hnd : (akeys m).Nodup) (k : κ) (v : α) :
    asum g (AList.set m k v) = asum g (AList.erase m k) + g k v := by
  rw [asum_split g _ (nodup_set m k v hnd) k, erase_set, aget_set, if_pos rfl]

theorem asum_eq_zero (g : κ → α → Nat) (m : AList κ α) (h : ∀ p ∈ m, g p.1 p.2 = 0) : asum g m = 0 := by
  induction m with
  | nil => rfl
  | cons p t ih =>
    rw [asum_cons, h p (List.mem_cons_self ..), ih (fun q hq => h q (List.mem_cons_of_mem _ hq))]

end AL

/-! ## 1. frame lemmas: what never touches the registration data -/
/-- the registration data (`_adapters`, `_subscribers`, `_provided`, `_v_lookup._extendors`) of every registry agree -/
structure SameData (w w' : World) : Prop where
  adapters : ∀ x, (w'.reg x).adapters = (w.reg x).adapters
  subs : ∀ x, (w'.reg x).subs = (w.reg x).subs
  provided : ∀ x, (w'.reg x).provided = (w.reg x).provided
  extendors : ∀ x, (w'.reg x).extendors = (w.reg x).extendors

theorem SameData.refl (w : World) : SameData w w := ⟨fun _ => rfl, fun _ => rfl, fun _ => rfl, fun _ => rfl⟩
theorem SameData.trans {a b c : World} (h1 : SameData a b) (h2 : SameData b c) : SameData a c :=
  ⟨fun x => (h2.adapters x).trans (h1.adapters x), fun x => (h2.subs x).trans (h1.subs x),
   fun x => (h2.provided x).trans (h1.provided x), fun x => (h2.extendors x).trans (h1.extendors x)⟩

theorem sameData_setReg (w : World) (r : Nat) (x : Reg) (ha : x.adapters = (w.reg r).adapters)
    (hs : x.subs = (w.reg r).subs) (hp : x.provided = (w.reg r).provided) (he : x.extendors = (w.reg r).extendors) :
    SameData w (w.setReg r x) := by
  refine ⟨fun y => ?_, fun y => ?_, fun y => ?_, fun y => ?_⟩ <;>
  · by_cases h : y = r
    · subst h; rw [reg_setReg_same]; assumption
    · rw [reg_setReg_ne _ h]

theorem foldl_sameData {α} (f : World → α → World) (h : ∀ w a, SameData w (f w a)) :
    ∀ (l : List α) (w : World), SameData w (l.foldl f w)
  | [], w => SameData.refl w
  | a :: l, w => (h w a).trans (foldl_sameData f h l (f w a))

theorem clearCaches_data (x : Reg) : (clearCaches x).adapters = x.adapters ∧ (clearCaches x).subs = x.subs ∧
    (clearCaches x).provided = x.provided ∧ (clearCaches x).extendors = x.extendors := ⟨rfl, rfl, rfl, rfl⟩

theorem clearCaches_sameData (w : World) (r : Nat) : SameData w (w.setReg r (clearCaches (w.reg r))) :=
  sameData_setReg w r _ rfl rfl rfl rfl

theorem verifyingChangedBase_sameData (w : World) (r : Nat) : SameData w (verifyingChangedBase w r) :=
  sameData_setReg w r _ rfl rfl rfl rfl

theorem verifyingChanged_sameData (w : World) (r : Nat) : SameData w (verifyingChanged w r) := by
  unfold verifyingChanged
  refine SameData.trans ?_ (verifyingChangedBase_sameData _ r)
  apply sameData_setReg <;> rfl

/-- `changed` (either flavour, any cascade depth) touches generations, caches, `ro` and the snapshots only -/
theorem changed_sameData : ∀ (f : Nat) (w : World) (r : Nat), SameData w (changed f w r)
  | 0, w, _ => SameData.refl w
  | f+1, w, r => by
    unfold changed
    simp only []
    have h1 : SameData w (w.setReg r { w.reg r with generation := (w.reg r).generation + 1 }) :=
      sameData_setReg w r _ rfl rfl rfl rfl
    split
    · exact h1.trans (verifyingChanged_sameData _ r)
    · refine (h1.trans (clearCaches_sameData _ r)).trans ?_
      exact foldl_sameData _ (fun w s => changed_sameData f w s) _ _

theorem verify_sameData (w : World) (r : Nat) : SameData w (verify w r) := by
  unfold verify
  simp only []
  split
  · exact SameData.refl w
  · split
    · exact verifyingChanged_sameData w r
    · exact SameData.refl w

theorem setBasesOwn_sameData (fuel : Nat) (w : World) (r : Nat) (bs : List Nat) : SameData w (setBasesOwn fuel w r bs) := by
  unfold setBasesOwn
  simp only []
  refine SameData.trans ?_ (changed_sameData fuel _ r)
  refine SameData.trans (b := w.setReg r { w.reg r with bases := bs }) ?_ ?_
  · apply sameData_setReg <;> rfl
  · apply sameData_setReg <;> rfl

theorem stepSub_sameData (c : Nat → Bool) (g : List Nat → List Nat) (w : World) (b : Nat) : SameData w (stepSub c g w b) := by
  unfold stepSub
  split
  · exact SameData.refl w
  · exact sameData_setReg w b _ rfl rfl rfl rfl

theorem moveSubreg_sameData (w : World) (r : Nat) (old bs : List Nat) : SameData w (moveSubreg w r old bs) := by
  have e : moveSubreg w r old bs =
      bs.foldl (stepSub (fun b => old.contains b) (fun L => L.filter (· != r) ++ [r]))
        (old.foldl (stepSub (fun b => bs.contains b) (fun L => L.filter (· != r))) w) := rfl
  rw [e]
  exact (foldl_sameData _ (stepSub_sameData _ _) old w).trans (foldl_sameData _ (stepSub_sameData _ _) bs _)

theorem setBasesPush_sameData (fuel : Nat) : ∀ (f : Nat) (w : World) (r : Nat) (bs : List Nat),
    SameData w (setBasesPush fuel f w r bs)
  | 0, w, _, _ => SameData.refl w
  | f+1, w, r, bs => by
    rw [setBasesPush_succ]
    exact ((moveSubreg_sameData w r _ bs).trans (setBasesOwn_sameData fuel _ r bs)).trans
      (foldl_sameData _ (fun w s => setBasesPush_sameData fuel f w s _) _ _)

theorem setBases_sameData (fuel : Nat) (w : World) (r : Nat) (bs : List Nat) : SameData w (setBases fuel w r bs) := by
  unfold setBases
  split
  · exact setBasesOwn_sameData fuel w r bs
  · exact setBasesPush_sameData fuel fuel w r bs

theorem lookup_sameData (w : World) (r : Nat) (req : List Id) (prov : Id) (name : String) :
    SameData w (lookup w r req prov name).1 := by
  unfold lookup; simp only []
  split
  · exact verify_sameData w r
  · exact (verify_sameData w r).trans (sameData_setReg _ r _ rfl rfl rfl rfl)
theorem lookupAll_sameData (w : World) (r : Nat) (req : List Id) (prov : Id) :
    SameData w (lookupAll w r req prov).1 := by
  unfold lookupAll; simp only []
  split
  · exact verify_sameData w r
  · exact (verify_sameData w r).trans (sameData_setReg _ r _ rfl rfl rfl rfl)
theorem subscriptions_sameData (w : World) (r : Nat) (req : List Id) (prov : Option Id) :
    SameData w (subscriptions w r req prov).1 := by
  unfold subscriptions; simp only []
  split
  · exact verify_sameData w r
  · exact (verify_sameData w r).trans (sameData_setReg _ r _ rfl rfl rfl rfl)

/-! ## 2. `getOrder` / `setOrder`: the per-arity list of `_adapters` / `_subscribers` is a map from arities to trees -/
section Orders
variable {α : Type}

/-- the arities that have a container, in list order -/
def orders (l : List (ByOrder α)) : List Nat := l.map (·.order)

theorem any_order_iff (l : List (ByOrder α)) (n : Nat) : l.any (·.order == n) = true ↔ n ∈ orders l := by
  simp only [List.any_eq_true, orders, List.mem_map, beq_iff_eq]

/-- the cast of `getOrder` disappears once the entry found is written with the arity asked for -/
theorem getOrder_of_find_some (e : α) (l : List (ByOrder α)) (n : Nat) (t : Level α (n+1))
    (h : l.find? (·.order == n) = some ⟨n, t⟩) : getOrder e l n = t := by
  unfold getOrder
  rw [h]
  simp

theorem getOrder_of_find_none (e : α) (l : List (ByOrder α)) (n : Nat)
    (h : l.find? (·.order == n) = none) : getOrder e l n = Level.empty e (n+1) := by
  unfold getOrder
  rw [h]

theorem find_order_shape (l : List (ByOrder α)) (n : Nat) (b : ByOrder α) (h : l.find? (·.order == n) = some b) :
    ∃ t : Level α (n+1), b = ⟨n, t⟩ := by
  have := List.find?_some h
  have hb : b.order = n := by simpa using this
  obtain ⟨o, t⟩ := b
  simp only at hb
  subst hb
  exact ⟨t, rfl⟩

theorem getOrder_of_not_mem (e : α) (l : List (ByOrder α)) (n : Nat) (h : n ∉ orders l) :
    getOrder e l n = Level.empty e (n+1) := by
  apply getOrder_of_find_none
  rw [List.find?_eq_none]
  intro b hb hbn
  exact h (by simp only [orders, List.mem_map]; exact ⟨b, hb, by simpa using hbn⟩)

theorem find_setOrder_same (l : List (ByOrder α)) (n : Nat) (t : Level α (n+1)) :
    (setOrder l n t).find? (·.order == n) = some ⟨n, t⟩ := by
  unfold setOrder
  split
  · rename_i hany
    induction l with
    | nil => simp at hany
    | cons b l ih =>
      cases hb : (b.order == n) with
      | true => rw [List.map_cons, hb, if_pos rfl, List.find?_cons_of_pos (by simp)]
      | false =>
        have h' : l.any (·.order == n) = true := by
          rw [List.any_cons, hb, Bool.false_or] at hany; exact hany
        rw [List.map_cons, hb, if_neg (by simp), List.find?_cons_of_neg (by simp [hb])]
        exact ih h'
  · rename_i hany
    have hnone : l.find? (·.order == n) = none := by
      rw [List.find?_eq_none]; intro x hx
      simp only [List.any_eq_true, not_exists, not_and] at hany
      exact hany x hx
    simp [List.find?_append, hnone]

theorem find_setOrder_ne (l : List (ByOrder α)) (n n' : Nat) (t : Level α (n+1)) (hn : n' ≠ n) :
    (setOrder l n t).find? (·.order == n') = l.find? (·.order == n') := by
  have hnn : (n == n') = false := by simpa using fun e => hn e.symm
  unfold setOrder
  split
  · rename_i hany; clear hany
    induction l with
    | nil => rfl
    | cons b l ih =>
      cases hb : (b.order == n) with
      | true =>
        have e : b.order = n := by simpa using hb
        have hq : (b.order == n') = false := by rw [e]; exact hnn
        rw [List.map_cons, hb, if_pos rfl, List.find?_cons_of_neg (by simp [hnn]), List.find?_cons_of_neg (by simp [hq])]
        exact ih
      | false =>
        rw [List.map_cons, hb, if_neg (by simp)]
        cases hq : (b.order == n') with
        | true => rw [List.find?_cons_of_pos (by simp [hq]), List.find?_cons_of_pos (by simp [hq])]
        | false => rw [List.find?_cons_of_neg (by simp [hq]), List.find?_cons_of_neg (by simp [hq])]; exact ih
  · have : ¬ n = n' := fun e => hn e.symm
    simp [List.find?_append, this]

/-- **read-after-write**: the arity written reads back the tree written (no cast left) -/
theorem getOrder_setOrder_same9 (e : α) (l : List (ByOrder α)) (n : Nat) (t : Level α (n+1)) :
    getOrder e (setOrder l n t) n = t :=
  getOrder_of_find_some e _ n t (find_setOrder_same l n t)

/-- … and every other arity is unchanged -/
theorem getOrder_setOrder_ne9 (e : α) (l : List (ByOrder α)) (n n' : Nat) (t : Level α (n+1)) (hn : n' ≠ n) :
    getOrder e (setOrder l n t) n' = getOrder e l n' := by
  unfold getOrder
  rw [find_setOrder_ne l n n' t hn]

theorem orders_setOrder (l : List (ByOrder α)) (n : Nat) (t : Level α (n+1)) :
    orders (setOrder l n t) = if n ∈ orders l then orders l else orders l ++ [n] := by
  unfold setOrder
  by_cases h : l.any (·.order == n) = true
  · rw [if_pos h, if_pos ((any_order_iff l n).mp h)]
    clear h
    induction l with
    | nil => rfl
    | cons b l ih =>
      simp only [orders, List.map_cons, List.cons.injEq] at ih ⊢
      refine ⟨?_, ih⟩
      by_cases hb : b.order = n
      · simp [hb]
      · have : (b.order == n) = false := by simpa using hb
        simp [this]
  · rw [if_neg h, if_neg (fun hm => h ((any_order_iff l n).mpr hm))]
    simp [orders]

theorem any_setOrder (l : List (ByOrder α)) (n n' : Nat) (t : Level α (n+1)) :
    (setOrder l n t).any (·.order == n') = (l.any (·.order == n') || n == n') := by
  rw [Bool.eq_iff_iff]
  simp only [any_order_iff, Bool.or_eq_true, beq_iff_eq, orders_setOrder]
  split
  · rename_i h
    constructor
    · exact Or.inl
    · rintro (h' | h')
      · exact h'
      · exact h' ▸ h
  · simp only [List.mem_append, List.mem_singleton]
    constructor
    · rintro (h' | h')
      · exact Or.inl h'
      · exact Or.inr h'.symm
    · rintro (h' | h')
      · exact Or.inl h'
      · exact Or.inr h'.symm

theorem nodup_setOrder (l : List (ByOrder α)) (n : Nat) (t : Level α (n+1)) (h : (orders l).Nodup) :
    (orders (setOrder l n t)).Nodup := by
  rw [orders_setOrder]
  split
  · exact h
  · rename_i hk
    rw [List.nodup_append]
    refine ⟨h, by simp, ?_⟩
    intro a ha b hb
    simp only [List.mem_singleton] at hb
    subst hb; intro e; subst e; exact hk ha

/-- membership in the written list: an old entry of another arity, or the new entry -/
theorem mem_setOrder (l : List (ByOrder α)) (n : Nat) (t : Level α (n+1)) (b : ByOrder α) (h : b ∈ setOrder l n t) :
    (b ∈ l ∧ b.order ≠ n) ∨ b = ⟨n, t⟩ := by
  unfold setOrder at h
  split at h
  · obtain ⟨p, hp, e⟩ := List.mem_map.mp h
    split at e
    · exact Or.inr e.symm
    · rename_i hpn
      exact Or.inl ⟨e ▸ hp, by rw [← e]; simpa using hpn⟩
  · rename_i hany
    rcases List.mem_append.mp h with h | h
    · refine Or.inl ⟨h, fun e => hany ?_⟩
      exact List.any_eq_true.mpr ⟨b, h, by simpa using e⟩
    · exact Or.inr (by simpa using h)

end Orders

/-! ## 3. whole-registry read-after-write laws -/
/-- agreement of the registration data of two registry records -/
structure DataEq (x y : Reg) : Prop where
  adapters : x.adapters = y.adapters
  subs : x.subs = y.subs
  provided : x.provided = y.provided
  extendors : x.extendors = y.extendors

theorem SameData.at {w w' : World} (h : SameData w w') (x : Nat) : DataEq (w'.reg x) (w.reg x) :=
  ⟨h.adapters x, h.subs x, h.provided x, h.extendors x⟩

/-- every mutator ends in `changed fuel (w.setReg r X) r`: registry `r` then holds the data of `X` … -/
theorem mut_data_same (fuel : Nat) (w : World) (r : Nat) (X : Reg) : DataEq ((changed fuel (w.setReg r X) r).reg r) X := by
  have h := (changed_sameData fuel (w.setReg r X) r).at r
  rw [reg_setReg_same] at h
  exact h

/-- … and every other registry holds what it held -/
theorem mut_data_ne (fuel : Nat) (w : World) (r : Nat) (X : Reg) {r' : Nat} (hr : r' ≠ r) :
    DataEq ((changed fuel (w.setReg r X) r).reg r') (w.reg r') := by
  have h := (changed_sameData fuel (w.setReg r X) r).at r'
  rw [reg_setReg_ne _ hr] at h
  exact h

/-! ### the flat map read out of one list of per-arity trees -/
/-- the leaf filed under `path` in the arity-`n` tree (`none` if any container on the way is missing) -/
def pathFind {α} (e : α) (l : List (ByOrder α)) (n : Nat) (path : List K) : Option α :=
  Level.find (n+1) (getOrder e l n) path

theorem pathFind_of_not_mem {α} (e : α) (l : List (ByOrder α)) (n : Nat) (path : List K) (h : n ∉ orders l) :
    pathFind e l n path = none := by
  unfold pathFind
  rw [getOrder_of_not_mem e l n h, find_empty_succ]

/-- **update through the arity list**: exactly the addressed path changes -/
theorem pathFind_setOrder_update {α} (e : α) (f : α → α) (l : List (ByOrder α)) (n : Nat) (path : List K)
    (n' : Nat) (path' : List K) (hl : path.length = n+1) (hl' : path'.length = n'+1) :
    pathFind e (setOrder l n (Level.update e f (n+1) (getOrder e l n) path)) n' path' =
      if path' = path then some (f ((pathFind e l n path).getD e)) else pathFind e l n' path' := by
  by_cases hn : n' = n
  · subst hn
    unfold pathFind
    rw [getOrder_setOrder_same9, find_update e f (n'+1) _ path path' hl hl']
  · have hp : path' ≠ path := by
      intro e; rw [e, hl] at hl'; exact hn (by omega)
    unfold pathFind
    rw [getOrder_setOrder_ne9 e l n n' _ hn, if_neg hp]

/-- **removal (with pruning) through the arity list**: the addressed leaf becomes `f a` or disappears when that is
empty; nothing else changes -/
theorem pathFind_setOrder_remove {α} (e : α) (isEmpty : α → Bool) (f : α → α) (l : List (ByOrder α)) (n : Nat)
    (path : List K) (n' : Nat) (path' : List K) (hl : path.length = n+1) (hl' : path'.length = n'+1) :
    pathFind e (setOrder l n (Level.remove isEmpty f (n+1) (getOrder e l n) path).1) n' path' =
      if path' = path then (pathFind e l n path).bind fun a => if isEmpty (f a) then none else some (f a)
      else pathFind e l n' path' := by
  by_cases hn : n' = n
  · subst hn
    unfold pathFind
    rw [getOrder_setOrder_same9, find_remove isEmpty f n' _ path path' hl hl']
  · have hp : path' ≠ path := by
      intro e; rw [e, hl] at hl'; exact hn (by omega)
    unfold pathFind
    rw [getOrder_setOrder_ne9 e l n n' _ hn, if_neg hp]

/-- the key path of a registration: converted required specs, then the provided key -/
def regPath (req : List (Option Id)) (prov : K) : List K := req.map convNone ++ [prov]

theorem regPath_length (req : List (Option Id)) (prov : K) : (regPath req prov).length = req.length + 1 := by
  simp [regPath]

theorem regPath_inj (req req' : List (Option Id)) (prov prov' : K) :
    regPath req' prov' = regPath req prov ↔ req'.map convNone = req.map convNone ∧ prov' = prov := by
  unfold regPath; exact List.append_singleton_inj

theorem length_of_map_convNone {req req' : List (Option Id)} (h : req'.map convNone = req.map convNone) :
    req'.length = req.length := by
  have := congrArg List.length h
  simpa using this

/-- `registered()` reads the adapters of one registry only, through `pathFind` -/
theorem registered_eq (w : World) (r : Nat) (req : List (Option Id)) (prov : Id) (name : String) :
    registered w r req prov name =
      (pathFind ([] : Names) (w.reg r).adapters req.length (regPath req (some prov))).bind fun names => AList.get? names name := rfl

/-- the key of `registered()` is `(registry, required.map convNone, provided, name)` -/
theorem registered_congr (w : World) (r : Nat) (req req' : List (Option Id)) (prov : Id) (name : String)
    (h : req'.map convNone = req.map convNone) : registered w r req' prov name = registered w r req prov name := by
  rw [registered_eq, registered_eq, length_of_map_convNone h]
  unfold regPath; rw [h]

theorem registered_of_dataEq {w w' : World} {r r' : Nat} (h : (w'.reg r').adapters = (w.reg r).adapters)
    (req : List (Option Id)) (prov : Id) (name : String) : registered w' r' req prov name = registered w r req prov name := by
  rw [registered_eq, registered_eq, h]

theorem bind_get_eq (o : Option Names) (name : String) :
    (o.bind fun names => AList.get? names name) = AList.get? (o.getD []) name := by
  cases o <;> rfl

/-! ### `register` -/
/-- the record `register` writes back (when it is not a no-op) -/
def registerReg (w : World) (x : Reg) (req : List (Option Id)) (prov : Id) (name : String) (v : Val) : Reg :=
  let order := req.length
  let path := req.map convNone ++ [some prov]
  let tree := getOrder ([] : Names) x.adapters order
  let tree := Level.update ([] : Names) (fun names => AList.set names name v) (order+1) tree path
  let x := { x with adapters := setOrder x.adapters order tree }
  let n := ((AList.get? x.provided prov).getD 0) + 1
  let x := { x with provided := AList.set x.provided prov n }
  if n == 1 then addExtendor w x prov else x

theorem register_eq (fuel : Nat) (w : World) (r : Nat) (req : List (Option Id)) (prov : Id) (name : String) (v : Val) :
    register fuel w r req prov name v =
      if (registered w r req prov name).map (·.ident) == some v.ident then w
      else changed fuel (w.setReg r (registerReg w (w.reg r) req prov name v)) r := rfl

theorem registerReg_adapters (w : World) (x : Reg) (req : List (Option Id)) (prov : Id) (name : String) (v : Val) :
    (registerReg w x req prov name v).adapters =
      setOrder x.adapters req.length (Level.update ([] : Names) (fun names => AList.set names name v) (req.length+1)
        (getOrder ([] : Names) x.adapters req.length) (regPath req (some prov))) := by
  unfold registerReg; simp only []; split <;> rfl

theorem registerReg_subs (w : World) (x : Reg) (req : List (Option Id)) (prov : Id) (name : String) (v : Val) :
    (registerReg w x req prov name v).subs = x.subs := by
  unfold registerReg; simp only []; split <;> rfl

theorem registerReg_provided (w : World) (x : Reg) (req : List (Option Id)) (prov : Id) (name : String) (v : Val) :
    (registerReg w x req prov name v).provided = AList.set x.provided prov ((AList.get? x.provided prov).getD 0 + 1) := by
  unfold registerReg; simp only []; split <;> rfl

/-- **`registered` after `register`** (the refinement to a flat map, write side).  The addressed key
`(r, req.map convNone, prov, name)` reads the value just written — except that re-registering the *same object*
(`components.get(name) is value`) is a no-op of the code and the stored `Val` stays; every other key — other registry,
other arity, other path, other name — reads what it read before. -/
theorem registered_register (fuel : Nat) (w : World) (r : Nat) (req : List (Option Id)) (prov : Id) (name : String) (v : Val)
    (r' : Nat) (req' : List (Option Id)) (prov' : Id) (name' : String) :
    registered (register fuel w r req prov name v) r' req' prov' name' =
      if r' = r ∧ req'.map convNone = req.map convNone ∧ prov' = prov ∧ name' = name then
        (if (registered w r req prov name).map (·.ident) = some v.ident then registered w r req prov name else some v)
      else registered w r' req' prov' name' := by
  rw [register_eq]
  by_cases hno : (registered w r req prov name).map (·.ident) = some v.ident
  · have hb : ((registered w r req prov name).map (·.ident) == some v.ident) = true := by simpa using hno
    rw [if_pos hb, if_pos hno]
    split
    · rename_i h
      obtain ⟨h1, h2, h3, h4⟩ := h
      subst h1 h3 h4
      exact registered_congr w r' req req' prov' name' h2
    · rfl
  · have hb : ¬ ((registered w r req prov name).map (·.ident) == some v.ident) = true := by simpa using hno
    rw [if_neg hb, if_neg hno]
    by_cases hr : r' = r
    · subst hr
      rw [registered_eq, (mut_data_same fuel w r' _).adapters, registerReg_adapters,
        pathFind_setOrder_update _ _ _ _ _ _ _ (regPath_length req _) (regPath_length req' _)]
      by_cases hp : regPath req' (some prov') = regPath req (some prov)
      · rw [if_pos hp]
        obtain ⟨h2, h3⟩ := (regPath_inj req req' (some prov) (some prov')).mp hp
        have h3' : prov' = prov := by simpa using h3
        subst h3'
        simp only [Option.bind_some, aget_set]
        by_cases hname : name = name'
        · subst hname; simp [h2]
        · have : ¬ name' = name := fun e => hname e.symm
          simp only [hname, this, and_false, if_false]
          rw [registered_eq, length_of_map_convNone h2, hp, bind_get_eq]
      · rw [if_neg hp]
        have : ¬ (r' = r' ∧ req'.map convNone = req.map convNone ∧ prov' = prov ∧ name' = name) := by
          rintro ⟨_, h2, h3, _⟩
          exact hp ((regPath_inj req req' (some prov) (some prov')).mpr ⟨h2, by rw [h3]⟩)
        rw [if_neg this]; rfl
    · have : ¬ (r' = r ∧ req'.map convNone = req.map convNone ∧ prov' = prov ∧ name' = name) := fun h => hr h.1
      rw [if_neg this]
      exact registered_of_dataEq (mut_data_ne fuel w r _ hr).adapters req' prov' name'

/-- corollary: the addressed key reads a value of the identity just registered -/
theorem registered_register_self (fuel : Nat) (w : World) (r : Nat) (req : List (Option Id)) (prov : Id) (name : String) (v : Val) :
    ∃ v', registered (register fuel w r req prov name v) r req prov name = some v' ∧ v'.ident = v.ident := by
  rw [registered_register, if_pos ⟨rfl, rfl, rfl, rfl⟩]
  split
  · rename_i h
    cases hreg : registered w r req prov name with
    | none => rw [hreg] at h; simp at h
    | some v' => rw [hreg] at h; exact ⟨v', rfl, by simpa using h⟩
  · exact ⟨v, rfl, rfl⟩

/-! ### `unregister` -/
/-- `unregister(…, value)` only removes when no value is given or the stored object is the one given -/
def identMismatch (v : Option Val) (old : Val) : Bool :=
  match v with | some v => old.ident != v.ident | none => false

/-- the record `unregister` writes back (when it removes something) -/
def unregisterReg (w : World) (x : Reg) (req : List (Option Id)) (prov : Id) (name : String) : Reg :=
  let order := req.length
  let path := req.map convNone ++ [some prov]
  let tree := getOrder ([] : Names) x.adapters order
  let r' := Level.remove (fun (names : Names) => names.isEmpty) (fun names => AList.erase names name) (order+1) tree path
  let x := { x with adapters := setOrder x.adapters order r'.1 }
  let n := ((AList.get? x.provided prov).getD 0) - 1
  if n == 0 then removeExtendor w { x with provided := AList.erase x.provided prov } prov
  else { x with provided := AList.set x.provided prov n }

theorem unregister_eq (fuel : Nat) (w : World) (r : Nat) (req : List (Option Id)) (prov : Id) (name : String) (v : Option Val) :
    unregister fuel w r req prov name v =
      if !((w.reg r).adapters.any (·.order == req.length)) then w else
      match registered w r req prov name with
      | none => w
      | some old => if identMismatch v old then w
                    else changed fuel (w.setReg r (unregisterReg w (w.reg r) req prov name)) r := rfl

theorem unregisterReg_adapters (w : World) (x : Reg) (req : List (Option Id)) (prov : Id) (name : String) :
    (unregisterReg w x req prov name).adapters =
      setOrder x.adapters req.length (Level.remove (fun (names : Names) => names.isEmpty) (fun names => AList.erase names name)
        (req.length+1) (getOrder ([] : Names) x.adapters req.length) (regPath req (some prov))).1 := by
  unfold unregisterReg; simp only []; split <;> rfl

theorem unregisterReg_subs (w : World) (x : Reg) (req : List (Option Id)) (prov : Id) (name : String) :
    (unregisterReg w x req prov name).subs = x.subs := by
  unfold unregisterReg; simp only []; split <;> rfl

theorem unregisterReg_provided (w : World) (x : Reg) (req : List (Option Id)) (prov : Id) (name : String) :
    (unregisterReg w x req prov name).provided =
      if (AList.get? x.provided prov).getD 0 - 1 = 0 then AList.erase x.provided prov
      else AList.set x.provided prov ((AList.get? x.provided prov).getD 0 - 1) := by
  unfold unregisterReg; simp only []
  by_cases h : (AList.get? x.provided prov).getD 0 - 1 = 0
  · rw [if_pos (by simpa using h), if_pos h]; rfl
  · rw [if_neg (by simpa using h), if_neg h]

theorem registered_none_of_no_order (w : World) (r : Nat) (req : List (Option Id)) (prov : Id) (name : String)
    (h : (!((w.reg r).adapters.any (·.order == req.length))) = true) : registered w r req prov name = none := by
  rw [registered_eq, pathFind_of_not_mem]
  · rfl
  · intro hm
    rw [← any_order_iff] at hm
    simp [hm] at h

/-- when `unregister` does nothing: nothing is registered under the key, or a different object is -/
theorem unregister_noop (fuel : Nat) (w : World) (r : Nat) (req : List (Option Id)) (prov : Id) (name : String) (v : Option Val)
    (h : match registered w r req prov name with | none => True | some old => identMismatch v old = true) :
    unregister fuel w r req prov name v = w := by
  rw [unregister_eq]
  split
  · rfl
  · split
    · rfl
    · rename_i old hold
      rw [hold] at h
      simp only at h
      rw [if_pos h]

/-- **`registered` after `unregister`** (the refinement to a flat map, delete side).  If something is registered under
the addressed key and no value was given or the identities agree, the key reads `none` afterwards; otherwise the call
is a no-op (`unregister_noop`).  Every other key — siblings in a pruned container included — reads what it read. -/
theorem registered_unregister (fuel : Nat) (w : World) (r : Nat) (req : List (Option Id)) (prov : Id) (name : String)
    (v : Option Val) (r' : Nat) (req' : List (Option Id)) (prov' : Id) (name' : String) :
    registered (unregister fuel w r req prov name v) r' req' prov' name' =
      if r' = r ∧ req'.map convNone = req.map convNone ∧ prov' = prov ∧ name' = name then
        (match registered w r req prov name with
         | none => none
         | some old => if identMismatch v old then some old else none)
      else registered w r' req' prov' name' := by
  have key : ∀ (h : r' = r ∧ req'.map convNone = req.map convNone ∧ prov' = prov ∧ name' = name),
      registered w r' req' prov' name' = registered w r req prov name := by
    rintro ⟨h1, h2, h3, h4⟩; subst h1 h3 h4; exact registered_congr w r' req req' prov' name' h2
  rw [unregister_eq]
  split
  · rename_i hno
    split
    · rename_i h; rw [key h, registered_none_of_no_order w r req prov name hno]
    · rfl
  · split
    · rename_i hnone
      split
      · rename_i h; rw [key h, hnone]
      · rfl
    · rename_i old hold
      by_cases hm : identMismatch v old = true
      · rw [if_pos hm]
        split
        · rename_i h; rw [key h, hold]
        · rfl
      · rw [if_neg hm]
        simp only [hm, Bool.false_eq_true, if_false]
        by_cases hr : r' = r
        · subst hr
          rw [registered_eq, (mut_data_same fuel w r' _).adapters, unregisterReg_adapters,
            pathFind_setOrder_remove _ _ _ _ _ _ _ _ (regPath_length req _) (regPath_length req' _)]
          by_cases hp : regPath req' (some prov') = regPath req (some prov)
          · rw [if_pos hp]
            obtain ⟨h2, h3⟩ := (regPath_inj req req' (some prov) (some prov')).mp hp
            have h3' : prov' = prov := by simpa using h3
            subst h3'
            rw [registered_eq] at hold
            cases hpf : pathFind ([] : Names) (w.reg r').adapters req.length (regPath req (some prov')) with
            | none => rw [hpf] at hold; simp at hold
            | some a =>
              rw [hpf] at hold
              simp only [Option.bind_some] at hold ⊢
              have hget : ∀ nm, ((if (AList.erase a name).isEmpty = true then none else some (AList.erase a name)).bind
                  fun names => AList.get? names nm) = AList.get? (AList.erase a name) nm := by
                intro nm
                split
                · rename_i he; rw [List.isEmpty_iff.mp he]; rfl
                · rfl
              rw [hget, aget_erase]
              by_cases hname : name = name'
              · subst hname; simp [h2]
              · have : ¬ name' = name := fun e => hname e.symm
                simp only [hname, this, and_false, if_false]
                rw [registered_eq, length_of_map_convNone h2, hp, hpf]; rfl
          · rw [if_neg hp]
            have : ¬ (r' = r' ∧ req'.map convNone = req.map convNone ∧ prov' = prov ∧ name' = name) := by
              rintro ⟨_, h2, h3, _⟩
              exact hp ((regPath_inj req req' (some prov) (some prov')).mpr ⟨h2, by rw [h3]⟩)
            rw [if_neg this]; rfl
        · have : ¬ (r' = r ∧ req'.map convNone = req.map convNone ∧ prov' = prov ∧ name' = name) := fun h => hr h.1
          rw [if_neg this]
          exact registered_of_dataEq (mut_data_ne fuel w r _ hr).adapters req' prov' name'

/-! ### subscription leaves -/
/-- the container entry under a subscription path (`none`: some container on the way is missing) -/
def subsFind (w : World) (r : Nat) (req : List (Option Id)) (prov : Option Id) : Option (List Val) :=
  pathFind ([] : List Val) (w.reg r).subs req.length (regPath req prov)

/-- the subscribers filed under `(r, req.map convNone, prov)`, in registration order (`[]` if there is no leaf) -/
def subsLeaf (w : World) (r : Nat) (req : List (Option Id)) (prov : Option Id) : List Val :=
  (subsFind w r req prov).getD []

theorem subsFind_congr (w : World) (r : Nat) (req req' : List (Option Id)) (prov : Option Id)
    (h : req'.map convNone = req.map convNone) : subsFind w r req' prov = subsFind w r req prov := by
  unfold subsFind
  rw [length_of_map_convNone h]
  unfold regPath; rw [h]

theorem subsFind_of_dataEq {w w' : World} {r r' : Nat} (h : (w'.reg r').subs = (w.reg r).subs)
    (req : List (Option Id)) (prov : Option Id) : subsFind w' r' req prov = subsFind w r req prov := by
  unfold subsFind; rw [h]

/-- `subscribed()` is a membership test on the leaf -/
theorem subscribed_eq (w : World) (r : Nat) (req : List (Option Id)) (prov : Option Id) (v : Val) :
    subscribed w r req prov v =
      if (subsLeaf w r req prov).any (fun u => u.ident == v.ident || u.eqc == v.eqc) then some v else none := by
  unfold subscribed subsLeaf subsFind pathFind regPath
  simp only []
  split
  · rename_i vs h; rw [h]; rfl
  · rename_i h; rw [h]; rfl

/-- the record `subscribe` writes back -/
def subscribeReg (w : World) (x : Reg) (req : List (Option Id)) (prov : Option Id) (v : Val) : Reg :=
  let order := req.length
  let path := req.map convNone ++ [prov]
  let tree := getOrder ([] : List Val) x.subs order
  let tree := Level.update ([] : List Val) (fun vs => vs ++ [v]) (order+1) tree path
  let x := { x with subs := setOrder x.subs order tree }
  match prov with
    | none => x
    | some p =>
      let n := ((AList.get? x.provided p).getD 0) + 1
      let x := { x with provided := AList.set x.provided p n }
      if n == 1 then addExtendor w x p else x

theorem subscribe_eq (fuel : Nat) (w : World) (r : Nat) (req : List (Option Id)) (prov : Option Id) (v : Val) :
    subscribe fuel w r req prov v = changed fuel (w.setReg r (subscribeReg w (w.reg r) req prov v)) r := rfl

theorem subscribeReg_subs (w : World) (x : Reg) (req : List (Option Id)) (prov : Option Id) (v : Val) :
    (subscribeReg w x req prov v).subs =
      setOrder x.subs req.length (Level.update ([] : List Val) (fun vs => vs ++ [v]) (req.length+1)
        (getOrder ([] : List Val) x.subs req.length) (regPath req prov)) := by
  unfold subscribeReg; simp only []
  split
  · rfl
  · split <;> rfl

theorem subscribeReg_adapters (w : World) (x : Reg) (req : List (Option Id)) (prov : Option Id) (v : Val) :
    (subscribeReg w x req prov v).adapters = x.adapters := by
  unfold subscribeReg; simp only []
  split
  · rfl
  · split <;> rfl

theorem subscribeReg_provided (w : World) (x : Reg) (req : List (Option Id)) (prov : Option Id) (v : Val) :
    (subscribeReg w x req prov v).provided =
      match prov with
      | none => x.provided
      | some p => AList.set x.provided p ((AList.get? x.provided p).getD 0 + 1) := by
  unfold subscribeReg; simp only []
  split
  · rfl
  · split <;> rfl

/-- **the subscription leaves after `subscribe`**: the addressed leaf gets the subscriber appended (a missing leaf
counts as empty), every other leaf — other registry, arity, path — is what it was -/
theorem subsFind_subscribe (fuel : Nat) (w : World) (r : Nat) (req : List (Option Id)) (prov : Option Id) (v : Val)
    (r' : Nat) (req' : List (Option Id)) (prov' : Option Id) :
    subsFind (subscribe fuel w r req prov v) r' req' prov' =
      if r' = r ∧ req'.map convNone = req.map convNone ∧ prov' = prov then some (subsLeaf w r req prov ++ [v])
      else subsFind w r' req' prov' := by
  rw [subscribe_eq]
  by_cases hr : r' = r
  · subst hr
    unfold subsFind
    rw [(mut_data_same fuel w r' _).subs, subscribeReg_subs,
      pathFind_setOrder_update _ _ _ _ _ _ _ (regPath_length req _) (regPath_length req' _)]
    by_cases hp : regPath req' prov' = regPath req prov
    · have h := (regPath_inj req req' prov prov').mp hp
      rw [if_pos hp, if_pos ⟨rfl, h⟩]; rfl
    · have : ¬ (r' = r' ∧ req'.map convNone = req.map convNone ∧ prov' = prov) := by
        rintro ⟨_, h⟩; exact hp ((regPath_inj req req' prov prov').mpr h)
      rw [if_neg hp, if_neg this]
  · have : ¬ (r' = r ∧ req'.map convNone = req.map convNone ∧ prov' = prov) := fun h => hr h.1
    rw [if_neg this]
    exact subsFind_of_dataEq (mut_data_ne fuel w r _ hr).subs req' prov'

theorem subsLeaf_subscribe (fuel : Nat) (w : World) (r : Nat) (req : List (Option Id)) (prov : Option Id) (v : Val)
    (r' : Nat) (req' : List (Option Id)) (prov' : Option Id) :
    subsLeaf (subscribe fuel w r req prov v) r' req' prov' =
      if r' = r ∧ req'.map convNone = req.map convNone ∧ prov' = prov then subsLeaf w r req prov ++ [v]
      else subsLeaf w r' req' prov' := by
  unfold subsLeaf
  rw [subsFind_subscribe]
  split <;> rfl

/-! ### `unsubscribe` -/
/-- what `unsubscribe` leaves of a leaf: nothing when no subscriber is given, else the entries not `==` to it -/
def unsubLeaf (v : Option Val) (old : List Val) : List Val :=
  match v with
  | none => []
  | some v => old.filter fun u => u.eqc != v.eqc

/-- the record `unsubscribe` writes back (when it removes something) -/
def unsubscribeReg (w : World) (x : Reg) (req : List (Option Id)) (prov : Option Id) (old new : List Val) : Reg :=
  let order := req.length
  let path := req.map convNone ++ [prov]
  let tree := getOrder ([] : List Val) x.subs order
  let r' := Level.remove (fun (vs : List Val) => vs.isEmpty) (fun _ => new) (order+1) tree path
  let x := { x with subs := setOrder x.subs order r'.1 }
  match prov with
    | none => x
    | some p =>
      let n := ((AList.get? x.provided p).getD 0) + new.length - old.length
      if n == 0 then removeExtendor w { x with provided := AList.erase x.provided p } p
      else { x with provided := AList.set x.provided p n }

theorem unsubscribe_eq (fuel : Nat) (w : World) (r : Nat) (req : List (Option Id)) (prov : Option Id) (v : Option Val) :
    unsubscribe fuel w r req prov v =
      if !((w.reg r).subs.any (·.order == req.length)) then w else
      match subsFind w r req prov with
      | none => w
      | some old =>
        if old.isEmpty then w else
        if (unsubLeaf v old).length == old.length then w else
        changed fuel (w.setReg r (unsubscribeReg w (w.reg r) req prov old (unsubLeaf v old))) r := by
  unfold unsubscribe subsFind pathFind regPath unsubLeaf
  simp only []
  split
  · rfl
  · split
    · rename_i h; rw [h]
    · rename_i old h; rw [h]; rfl

theorem unsubscribeReg_subs (w : World) (x : Reg) (req : List (Option Id)) (prov : Option Id) (old new : List Val) :
    (unsubscribeReg w x req prov old new).subs =
      setOrder x.subs req.length (Level.remove (fun (vs : List Val) => vs.isEmpty) (fun _ => new)
        (req.length+1) (getOrder ([] : List Val) x.subs req.length) (regPath req prov)).1 := by
  unfold unsubscribeReg; simp only []
  split
  · rfl
  · split <;> rfl

theorem unsubscribeReg_adapters (w : World) (x : Reg) (req : List (Option Id)) (prov : Option Id) (old new : List Val) :
    (unsubscribeReg w x req prov old new).adapters = x.adapters := by
  unfold unsubscribeReg; simp only []
  split
  · rfl
  · split <;> rfl

theorem unsubscribeReg_provided (w : World) (x : Reg) (req : List (Option Id)) (prov : Option Id) (old new : List Val) :
    (unsubscribeReg w x req prov old new).provided =
      match prov with
      | none => x.provided
      | some p =>
        if (AList.get? x.provided p).getD 0 + new.length - old.length = 0 then AList.erase x.provided p
        else AList.set x.provided p ((AList.get? x.provided p).getD 0 + new.length - old.length) := by
  unfold unsubscribeReg; simp only []
  split
  · rfl
  · rename_i p
    by_cases h : (AList.get? x.provided p).getD 0 + new.length - old.length = 0
    · rw [if_pos (by simpa using h), if_pos h]; rfl
    · rw [if_neg (by simpa using h), if_neg h]

theorem subsFind_none_of_no_order (w : World) (r : Nat) (req : List (Option Id)) (prov : Option Id)
    (h : (!((w.reg r).subs.any (·.order == req.length))) = true) : subsFind w r req prov = none := by
  unfold subsFind
  rw [pathFind_of_not_mem]
  intro hm
  rw [← any_order_iff] at hm
  simp [hm] at h

theorem filter_eq_self_of_length {α} (p : α → Bool) (l : List α) (h : (l.filter p).length = l.length) : l.filter p = l := by
  induction l with
  | nil => rfl
  | cons a l ih =>
    rw [List.filter_cons] at h ⊢
    split at h
    · rename_i ha; rw [if_pos ha]; simp only [List.length_cons, Nat.add_right_cancel_iff] at h; rw [ih h]
    · have := List.length_filter_le p l
      simp only [List.length_cons] at h; omega

/-- **the subscription leaves after `unsubscribe`**: the addressed leaf loses every entry `==` to the subscriber given
(all of them when none is given); every other leaf — in particular a sibling of a pruned container — is literally
unchanged (`subsFind`, so not even `none` / `some []` are confused) -/
theorem subsLeaf_unsubscribe (fuel : Nat) (w : World) (r : Nat) (req : List (Option Id)) (prov : Option Id) (v : Option Val)
    (r' : Nat) (req' : List (Option Id)) (prov' : Option Id) :
    subsLeaf (unsubscribe fuel w r req prov v) r' req' prov' =
      if r' = r ∧ req'.map convNone = req.map convNone ∧ prov' = prov then unsubLeaf v (subsLeaf w r req prov)
      else subsLeaf w r' req' prov' := by
  have key : ∀ (h : r' = r ∧ req'.map convNone = req.map convNone ∧ prov' = prov),
      subsLeaf w r' req' prov' = subsLeaf w r req prov := by
    rintro ⟨h1, h2, h3⟩; subst h1 h3; unfold subsLeaf; rw [subsFind_congr w r' req req' prov' h2]
  have unsub_nil : unsubLeaf v [] = [] := by cases v <;> rfl
  rw [unsubscribe_eq]
  split
  · rename_i hno
    split
    · rename_i h; rw [key h]; unfold subsLeaf; rw [subsFind_none_of_no_order w r req prov hno]; exact unsub_nil.symm
    · rfl
  · split
    · rename_i hnone
      split
      · rename_i h; rw [key h]; unfold subsLeaf; rw [hnone]; exact unsub_nil.symm
      · rfl
    · rename_i old hold
      have hleaf : subsLeaf w r req prov = old := by unfold subsLeaf; rw [hold]; rfl
      split
      · rename_i hemp
        split
        · rename_i h; rw [key h, hleaf, List.isEmpty_iff.mp hemp]; exact unsub_nil.symm
        · rfl
      · rename_i hemp
        split
        · rename_i hlen
          split
          · rename_i h
            rw [key h, hleaf]
            have hlen' : (unsubLeaf v old).length = old.length := by simpa using hlen
            cases v with
            | none =>
              have : old = [] := by
                simp only [unsubLeaf, List.length_nil] at hlen'
                exact List.eq_nil_of_length_eq_zero hlen'.symm
              rw [this]; rfl
            | some v => exact (filter_eq_self_of_length _ old hlen').symm
          · rfl
        · by_cases hr : r' = r
          · subst hr
            unfold subsLeaf subsFind
            rw [(mut_data_same fuel w r' _).subs, unsubscribeReg_subs,
              pathFind_setOrder_remove _ _ _ _ _ _ _ _ (regPath_length req _) (regPath_length req' _)]
            by_cases hp : regPath req' prov' = regPath req prov
            · have h := (regPath_inj req req' prov prov').mp hp
              have hc : r' = r' ∧ req'.map convNone = req.map convNone ∧ prov' = prov := ⟨rfl, h⟩
              rw [if_pos hp, if_pos hc]
              have hold' : pathFind ([] : List Val) (w.reg r').subs req.length (regPath req prov) = some old := hold
              rw [hold']
              simp only [Option.bind_some, Option.getD_some]
              by_cases he : (unsubLeaf v old).isEmpty = true
              · rw [if_pos he, List.isEmpty_iff.mp he]; rfl
              · rw [if_neg he]; rfl
            · have : ¬ (r' = r' ∧ req'.map convNone = req.map convNone ∧ prov' = prov) := by
                rintro ⟨_, h⟩; exact hp ((regPath_inj req req' prov prov').mpr h)
              rw [if_neg hp, if_neg this]
          · have : ¬ (r' = r ∧ req'.map convNone = req.map convNone ∧ prov' = prov) := fun h => hr h.1
            rw [if_neg this]
            unfold subsLeaf
            rw [subsFind_of_dataEq (mut_data_ne fuel w r _ hr).subs req' prov']

/-- … and for the keys not addressed even the container structure is untouched -/
theorem subsFind_unsubscribe_other (fuel : Nat) (w : World) (r : Nat) (req : List (Option Id)) (prov : Option Id) (v : Option Val)
    (r' : Nat) (req' : List (Option Id)) (prov' : Option Id)
    (hne : ¬ (r' = r ∧ req'.map convNone = req.map convNone ∧ prov' = prov)) :
    subsFind (unsubscribe fuel w r req prov v) r' req' prov' = subsFind w r' req' prov' := by
  rw [unsubscribe_eq]
  split
  · rfl
  · split
    · rfl
    · split
      · rfl
      · split
        · rfl
        · by_cases hr : r' = r
          · subst hr
            unfold subsFind
            rw [(mut_data_same fuel w r' _).subs, unsubscribeReg_subs,
              pathFind_setOrder_remove _ _ _ _ _ _ _ _ (regPath_length req _) (regPath_length req' _)]
            have hp : ¬ regPath req' prov' = regPath req prov := fun hp =>
              hne ⟨rfl, (regPath_inj req req' prov prov').mp hp⟩
            rw [if_neg hp]
          · exact subsFind_of_dataEq (mut_data_ne fuel w r _ hr).subs req' prov'

/-! ### the two families do not interfere -/
theorem subsFind_register (fuel : Nat) (w : World) (r : Nat) (req : List (Option Id)) (prov : Id) (name : String) (v : Val)
    (r' : Nat) (req' : List (Option Id)) (prov' : Option Id) :
    subsFind (register fuel w r req prov name v) r' req' prov' = subsFind w r' req' prov' := by
  rw [register_eq]
  split
  · rfl
  · by_cases hr : r' = r
    · subst hr; exact subsFind_of_dataEq ((mut_data_same fuel w r' _).subs.trans (registerReg_subs ..)) req' prov'
    · exact subsFind_of_dataEq (mut_data_ne fuel w r _ hr).subs req' prov'

theorem subsFind_unregister (fuel : Nat) (w : World) (r : Nat) (req : List (Option Id)) (prov : Id) (name : String)
    (v : Option Val) (r' : Nat) (req' : List (Option Id)) (prov' : Option Id) :
    subsFind (unregister fuel w r req prov name v) r' req' prov' = subsFind w r' req' prov' := by
  rw [unregister_eq]
  split
  · rfl
  · split
    · rfl
    · split
      · rfl
      · by_cases hr : r' = r
        · subst hr; exact subsFind_of_dataEq ((mut_data_same fuel w r' _).subs.trans (unregisterReg_subs ..)) req' prov'
        · exact subsFind_of_dataEq (mut_data_ne fuel w r _ hr).subs req' prov'

theorem registered_subscribe (fuel : Nat) (w : World) (r : Nat) (req : List (Option Id)) (prov : Option Id) (v : Val)
    (r' : Nat) (req' : List (Option Id)) (prov' : Id) (name' : String) :
    registered (subscribe fuel w r req prov v) r' req' prov' name' = registered w r' req' prov' name' := by
  rw [subscribe_eq]
  by_cases hr : r' = r
  · subst hr; exact registered_of_dataEq ((mut_data_same fuel w r' _).adapters.trans (subscribeReg_adapters ..)) req' prov' name'
  · exact registered_of_dataEq (mut_data_ne fuel w r _ hr).adapters req' prov' name'

theorem registered_unsubscribe (fuel : Nat) (w : World) (r : Nat) (req : List (Option Id)) (prov : Option Id) (v : Option Val)
    (r' : Nat) (req' : List (Option Id)) (prov' : Id) (name' : String) :
    registered (unsubscribe fuel w r req prov v) r' req' prov' name' = registered w r' req' prov' name' := by
  rw [unsubscribe_eq]
  split
  · rfl
  · split
    · rfl
    · split
      · rfl
      · split
        · rfl
        · by_cases hr : r' = r
          · subst hr
            exact registered_of_dataEq ((mut_data_same fuel w r' _).adapters.trans (unsubscribeReg_adapters ..)) req' prov' name'
          · exact registered_of_dataEq (mut_data_ne fuel w r _ hr).adapters req' prov' name'

/-! ## `Array.qsort` permutes (not in core 4.33: proved here from the unfolding equations of its private workers) -/
section QSort
open private Array.qsort.sort Array.qpartition.loop from Init.Data.Array.QSort.Basic

theorem loop_perm {α} {n : Nat} (lt : α → α → Bool) (lo hi : Nat) (hhi : hi < n) (pivot : α) :
    ∀ (d : Nat) (as : Vector α n) (i k : Nat) (ilo : lo ≤ i) (ik : i ≤ k) (w : k ≤ hi), hi - k = d →
      (Array.qpartition.loop lt lo hi hhi pivot as i k ilo ik w).2.Perm as := by
  intro d
  induction d with
  | zero =>
    intro as i k ilo ik w hd
    rw [Array.qpartition.loop.eq_def]
    have : ¬ k < hi := by omega
    rw [dif_neg this]
    apply Vector.swap_perm <;> omega
  | succ d ih =>
    intro as i k ilo ik w hd
    rw [Array.qpartition.loop.eq_def]
    have : k < hi := by omega
    rw [dif_pos this]
    split
    · exact (ih _ _ _ _ _ _ (by omega)).trans (by apply Vector.swap_perm)
    · exact ih _ _ _ _ _ _ (by omega)

theorem qpartition_perm {α} {n : Nat} (as : Vector α n) (lt : α → α → Bool) (lo hi : Nat) (w : lo ≤ hi)
    (hlo : lo < n) (hhi : hi < n) : (Array.qpartition as lt lo hi w hlo hhi).2.Perm as := by
  unfold Array.qpartition
  simp only []
  refine (loop_perm lt lo hi hhi _ _ _ _ _ _ _ _ rfl).trans ?_
  have sw : ∀ (c : Prop) [Decidable c] (v : Vector α n) (i j : Nat) (hi : i < n) (hj : j < n),
      (if c then v.swap i j hi hj else v).Perm v := by
    intro c _ v i j hi hj
    split
    · apply Vector.swap_perm
    · exact Vector.Perm.refl _
  exact ((sw _ _ _ _ _ _).trans (sw _ _ _ _ _ _)).trans (sw _ _ _ _ _ _)

theorem sort_perm {α} (lt : α → α → Bool) {n : Nat} :
    ∀ (d : Nat) (as : Vector α n) (lo hi : Nat) (w : lo ≤ hi) (hlo : lo < n) (hhi : hi < n), hi - lo = d →
      (Array.qsort.sort lt as lo hi w hlo hhi).Perm as := by
  intro d
  induction d using Nat.strongRecOn with
  | _ d ih =>
    intro as lo hi w hlo hhi hd
    rw [Array.qsort.sort.eq_def]
    split
    · rename_i h1
      have hp := qpartition_perm as lt lo hi w hlo hhi
      split
      rename_i mid hmid as' heq
      rw [heq] at hp
      simp only at hp
      split
      · exact hp
      · rename_i h2
        refine (ih (hi - (mid+1)) (by omega) _ _ _ _ _ _ rfl).trans ?_
        exact (ih (mid - lo) (by omega) _ _ _ _ _ _ rfl).trans hp
    · exact Vector.Perm.refl _

theorem qsort_perm {α} (as : Array α) (lt : α → α → Bool) : (as.qsort lt).Perm as := by
  unfold Array.qsort
  split
  · exact Array.Perm.refl _
  · simp only []
    exact Vector.perm_iff_toArray_perm.mp (sort_perm lt _ as.toVector _ _ _ _ _ rfl)

end QSort

/-- `sortByOrder` (the `sorted(enumerate(byorder))` of the model) only permutes the per-arity containers -/
theorem sortByOrder_perm {α} (l : List (ByOrder α)) : (sortByOrder l).Perm l := by
  unfold sortByOrder
  have := qsort_perm l.toArray (fun a b => decide (a.order < b.order))
  exact Array.perm_iff_toList_perm.mp this

/-! ## 4a. well-formedness of the nested containers: unique keys in every dict -/
/-- every association list inside the container has unique keys, and every leaf satisfies `P` -/
def LWF {α} (P : α → Prop) : (n : Nat) → Level α n → Prop
  | 0, l => P (leafOf l)
  | n+1, m => (akeys (kidsOf m)).Nodup ∧ ∀ c ∈ kidsOf m, LWF P n c.2

theorem lwf_zero {α} (P : α → Prop) (l : Level α 0) : LWF P 0 l ↔ P (leafOf l) := Iff.rfl
theorem lwf_succ {α} (P : α → Prop) (n : Nat) (m : Level α (n+1)) :
    LWF P (n+1) m ↔ (akeys (kidsOf m)).Nodup ∧ ∀ c ∈ kidsOf m, LWF P n c.2 := Iff.rfl

theorem lwf_empty {α} (P : α → Prop) (e : α) (he : P e) : ∀ n, LWF P n (Level.empty e n)
  | 0 => he
  | n+1 => by
    rw [lwf_succ]
    exact ⟨List.nodup_nil, fun c hc => by cases hc⟩

theorem lwf_update {α} (P : α → Prop) (e : α) (f : α → α) (he : P e) (hf : ∀ a, P a → P (f a)) :
    ∀ (n : Nat) (t : Level α n) (path : List K), LWF P n t → LWF P n (Level.update e f n t path) := by
  intro n
  induction n with
  | zero => intro t path h; exact hf _ h
  | succ n ih =>
    intro t path h
    cases path with
    | nil => exact h
    | cons k ks =>
      rw [lwf_succ] at h
      simp only [Level.update]
      rw [lwf_succ, kidsOf_mkNode']
      refine ⟨nodup_set _ _ _ h.1, fun c hc => ?_⟩
      rcases mem_set _ _ _ _ hc with hc | hc
      · exact h.2 c hc
      · rw [hc]
        apply ih
        cases hg : AList.get? (kidsOf t) k with
        | none => exact lwf_empty P e he n
        | some ch => exact h.2 (k, ch) (aget_some_mem _ _ _ hg)

theorem lwf_remove {α} (P : α → Prop) (isEmpty : α → Bool) (f : α → α) (hf : ∀ a, P a → P (f a)) :
    ∀ (n : Nat) (t : Level α n) (path : List K), LWF P n t → LWF P n (Level.remove isEmpty f n t path).1 := by
  intro n
  induction n with
  | zero => intro t path h; exact hf _ h
  | succ n ih =>
    intro t path h
    cases path with
    | nil => exact h
    | cons k ks =>
      cases hg : AList.get? (kidsOf t) k with
      | none => rw [remove_step_none _ _ _ _ _ _ hg]; exact h
      | some child =>
        rw [remove_step_some _ _ _ _ _ _ child hg]
        rw [lwf_succ] at h
        rw [lwf_succ, kidsOf_mkNode']
        split
        · exact ⟨nodup_erase _ _ h.1, fun c hc => h.2 c (mem_erase _ _ _ hc).1⟩
        · refine ⟨nodup_set _ _ _ h.1, fun c hc => ?_⟩
          rcases mem_set _ _ _ _ hc with hc | hc
          · exact h.2 c hc
          · rw [hc]; exact ih child ks (h.2 (k, child) (aget_some_mem _ _ _ hg))

/-! ### the enumeration `_allKeys` lists exactly the paths `find` resolves -/
theorem entries_zero {α} (l : Level α 0) : Level.entries 0 l = [([], leafOf l)] := rfl
theorem entries_succ {α} (n : Nat) (m : Level α (n+1)) :
    Level.entries (n+1) m = (kidsOf m).flatMap fun p => (Level.entries n p.2).map fun e => (p.1 :: e.1, e.2) := rfl

theorem entries_length {α} : ∀ (n : Nat) (t : Level α n) (e : List K × α), e ∈ Level.entries n t → e.1.length = n := by
  intro n
  induction n with
  | zero => intro t e he; rw [entries_zero] at he; simp only [List.mem_singleton] at he; rw [he]; rfl
  | succ n ih =>
    intro t e he
    rw [entries_succ] at he
    obtain ⟨p, _, hp⟩ := List.mem_flatMap.mp he
    obtain ⟨e', he', rfl⟩ := List.mem_map.mp hp
    simp [ih p.2 e' he']

theorem find_some_of_mem_entries {α} (P : α → Prop) : ∀ (n : Nat) (t : Level α n), LWF P n t → ∀ (path : List K) (a : α),
    (path, a) ∈ Level.entries n t → Level.find n t path = some a := by
  intro n
  induction n with
  | zero =>
    intro t _ path a h
    rw [entries_zero] at h
    simp only [List.mem_singleton, Prod.mk.injEq] at h
    rw [h.1, h.2]; rfl
  | succ n ih =>
    intro t hwf path a h
    rw [lwf_succ] at hwf
    rw [entries_succ] at h
    obtain ⟨p, hp, hp'⟩ := List.mem_flatMap.mp h
    obtain ⟨e', he', heq⟩ := List.mem_map.mp hp'
    simp only [Prod.mk.injEq] at heq
    rw [← heq.1, ← heq.2]
    have hg : AList.get? (kidsOf t) p.1 = some p.2 := aget_of_mem _ hwf.1 _ _ hp
    simp only [Level.find, hg, Option.bind_some]
    exact ih p.2 (hwf.2 p hp) e'.1 e'.2 he'

theorem mem_entries_of_find_some {α} : ∀ (n : Nat) (t : Level α n) (path : List K) (a : α),
    Level.find n t path = some a → (path, a) ∈ Level.entries n t := by
  intro n
  induction n with
  | zero =>
    intro t path a h
    cases path with
    | nil => simp only [Level.find, Option.some.injEq] at h; rw [entries_zero, ← h]; exact List.mem_singleton.mpr rfl
    | cons _ _ => simp [Level.find] at h
  | succ n ih =>
    intro t path a h
    cases path with
    | nil => simp [Level.find] at h
    | cons k ks =>
      simp only [Level.find] at h
      cases hg : AList.get? (kidsOf t) k with
      | none => rw [hg] at h; simp at h
      | some c =>
        rw [hg] at h
        simp only [Option.bind_some] at h
        rw [entries_succ]
        exact List.mem_flatMap.mpr ⟨(k, c), aget_some_mem _ _ _ hg, List.mem_map.mpr ⟨(ks, a), ih c ks a h, rfl⟩⟩

/-- in a container with unique keys the enumeration and the walk agree -/
theorem mem_entries_iff {α} (P : α → Prop) (n : Nat) (t : Level α n) (h : LWF P n t) (path : List K) (a : α) :
    (path, a) ∈ Level.entries n t ↔ Level.find n t path = some a :=
  ⟨find_some_of_mem_entries P n t h path a, mem_entries_of_find_some n t path a⟩

/-! ### the per-arity list with unique arities -/
section Orders2
variable {α : Type}

theorem find_order_of_mem (l : List (ByOrder α)) (hnd : (orders l).Nodup) (n : Nat) (t : Level α (n+1))
    (h : (⟨n, t⟩ : ByOrder α) ∈ l) : l.find? (·.order == n) = some ⟨n, t⟩ := by
  induction l with
  | nil => cases h
  | cons b l ih =>
    simp only [orders, List.map_cons, List.nodup_cons] at hnd
    rcases List.mem_cons.mp h with e | h'
    · rw [← e, List.find?_cons_of_pos (by simp)]
    · have hb : b.order ≠ n := by
        intro e; apply hnd.1; rw [e]
        exact List.mem_map.mpr ⟨⟨n, t⟩, h', rfl⟩
      rw [List.find?_cons_of_neg (by simpa using hb)]
      exact ih hnd.2 h'

/-- with unique arities a member is what `getOrder` returns for its arity -/
theorem getOrder_of_mem (e : α) (l : List (ByOrder α)) (hnd : (orders l).Nodup) (n : Nat) (t : Level α (n+1))
    (h : (⟨n, t⟩ : ByOrder α) ∈ l) : getOrder e l n = t :=
  getOrder_of_find_some e l n t (find_order_of_mem l hnd n t h)

theorem mem_of_order_mem (e : α) (l : List (ByOrder α)) (n : Nat) (h : n ∈ orders l) :
    (⟨n, getOrder e l n⟩ : ByOrder α) ∈ l := by
  cases hf : l.find? (·.order == n) with
  | none =>
    rw [List.find?_eq_none] at hf
    simp only [orders, List.mem_map] at h
    obtain ⟨b, hb, hbn⟩ := h
    exact absurd (by simpa using hbn) (hf b hb)
  | some b =>
    obtain ⟨t, rfl⟩ := find_order_shape l n b hf
    rw [getOrder_of_find_some e l n t hf]
    exact List.mem_of_find?_eq_some hf

/-- a property of all trees of the list holds for whatever `getOrder` returns (the empty tree included) -/
theorem getOrder_prop (e : α) (l : List (ByOrder α)) (Q : (n : Nat) → Level α (n+1) → Prop)
    (hl : ∀ b ∈ l, Q b.order b.tree) (he : ∀ n, Q n (Level.empty e (n+1))) (n : Nat) : Q n (getOrder e l n) := by
  by_cases h : n ∈ orders l
  · exact hl _ (mem_of_order_mem e l n h)
  · rw [getOrder_of_not_mem e l n h]; exact he n

/-- … and is kept by `setOrder` when the new tree has it -/
theorem setOrder_prop (l : List (ByOrder α)) (Q : (n : Nat) → Level α (n+1) → Prop)
    (hl : ∀ b ∈ l, Q b.order b.tree) (n : Nat) (t : Level α (n+1)) (ht : Q n t) :
    ∀ b ∈ setOrder l n t, Q b.order b.tree := by
  intro b hb
  rcases mem_setOrder l n t b hb with h | h
  · exact hl b h.1
  · rw [h]; exact ht

end Orders2

/-! ## 5. `allRegistrations()` / `allSubscriptions()` enumerate exactly the flat map -/
theorem flatMap_congr' {α β} (l : List α) (f g : α → List β) (h : ∀ a ∈ l, f a = g a) : l.flatMap f = l.flatMap g := by
  induction l with
  | nil => rfl
  | cons a l ih =>
    rw [List.flatMap_cons, List.flatMap_cons, h a (List.mem_cons_self ..),
      ih (fun b hb => h b (List.mem_cons_of_mem _ hb))]

theorem flatMap_key {κ α β : Type} [BEq κ] [LawfulBEq κ] [DecidableEq κ] (m : AList κ α) (hnd : (akeys m).Nodup) (k : κ)
    (g : α → List β) :
    m.flatMap (fun p => if p.1 = k then g p.2 else []) = match AList.get? m k with | some c => g c | none => [] := by
  induction m with
  | nil => rfl
  | cons p t ih =>
    simp only [akeys, List.map_cons, List.nodup_cons] at hnd
    rw [List.flatMap_cons, ih hnd.2, aget_cons]
    by_cases hp : p.1 = k
    · have hk : k ∉ akeys t := by rw [← hp]; exact hnd.1
      rw [if_pos hp, if_pos hp, aget_none_of_not_mem t k hk]; simp
    · rw [if_neg hp, if_neg hp]; rfl

theorem getOrder_cons_ne9 {α} (e : α) (b : ByOrder α) (l : List (ByOrder α)) (n : Nat) (h : b.order ≠ n) :
    getOrder e (b :: l) n = getOrder e l n := by
  unfold getOrder
  rw [List.find?_cons_of_neg (by simpa using h)]

theorem flatMap_order {α β} (e : α) (l : List (ByOrder α)) (hnd : (orders l).Nodup) (n : Nat)
    (G : (n : Nat) → Level α (n+1) → List β) :
    l.flatMap (fun b => if b.order = n then G b.order b.tree else []) =
      if n ∈ orders l then G n (getOrder e l n) else [] := by
  induction l with
  | nil => rfl
  | cons b l ih =>
    simp only [orders, List.map_cons, List.nodup_cons] at hnd
    rw [List.flatMap_cons, ih hnd.2]
    by_cases hb : b.order = n
    · obtain ⟨o, t⟩ := b
      simp only at hb
      subst hb
      have hk : o ∉ orders l := hnd.1
      rw [if_pos rfl, if_neg hk, if_pos (by simp [orders]),
        getOrder_of_find_some e _ o t (List.find?_cons_of_pos (by simp))]
      simp
    · rw [if_neg hb, getOrder_cons_ne9 e b l n hb]
      have : n ∈ orders (b :: l) ↔ n ∈ orders l := by
        simp only [orders, List.map_cons, List.mem_cons]
        constructor
        · rintro (h | h)
          · exact absurd h.symm hb
          · exact h
        · exact Or.inr
      by_cases hn : n ∈ orders l
      · rw [if_pos hn, if_pos (this.mpr hn)]; rfl
      · rw [if_neg hn, if_neg (fun h => hn (this.mp h))]; rfl

theorem find_length {α} : ∀ (n : Nat) (t : Level α n) (path : List K) (a : α), Level.find n t path = some a → path.length = n := by
  intro n t path a h
  exact entries_length n t (path, a) (mem_entries_of_find_some n t path a h)

theorem lwf_find {α} (P : α → Prop) : ∀ (n : Nat) (t : Level α n), LWF P n t → ∀ (path : List K) (a : α),
    Level.find n t path = some a → P a := by
  intro n
  induction n with
  | zero =>
    intro t h path a hf
    cases path with
    | nil => simp only [Level.find, Option.some.injEq] at hf; rw [← hf]; exact h
    | cons _ _ => simp [Level.find] at hf
  | succ n ih =>
    intro t h path a hf
    cases path with
    | nil => simp [Level.find] at hf
    | cons k ks =>
      simp only [Level.find] at hf
      cases hg : AList.get? (kidsOf t) k with
      | none => rw [hg] at hf; simp at hf
      | some c =>
        rw [hg] at hf
        exact ih c (((lwf_succ P n t).mp h).2 (k, c) (aget_some_mem _ _ _ hg)) ks a hf

section Enum
variable {γ : Type}

/-- all items filed under one path of a tree whose leaves are lists: the leaf (`[]` if there is none) -/
theorem gather_tree (P : List γ → Prop) : ∀ (n : Nat) (t : Level (List γ) n), LWF P n t → ∀ (path : List K),
    (Level.entries n t).flatMap (fun e => if e.1 = path then e.2 else []) = (Level.find n t path).getD [] := by
  intro n
  induction n with
  | zero =>
    intro t _ path
    rw [entries_zero]
    cases path with
    | nil => simp [Level.find]
    | cons k ks => simp [Level.find]
  | succ n ih =>
    intro t h path
    rw [lwf_succ] at h
    rw [entries_succ, List.flatMap_assoc]
    cases path with
    | nil =>
      have : Level.find (n+1) t [] = none := rfl
      rw [this]
      show _ = []
      rw [List.flatMap_eq_nil_iff]
      intro p _
      rw [List.flatMap_map, List.flatMap_eq_nil_iff]
      intro e _
      simp
    | cons k ks =>
      have step : ∀ p ∈ kidsOf t,
          ((Level.entries n p.2).map fun e => (p.1 :: e.1, e.2)).flatMap (fun e => if e.1 = k :: ks then e.2 else []) =
            if p.1 = k then (Level.find n p.2 ks).getD [] else [] := by
        intro p hp
        rw [List.flatMap_map]
        by_cases hpk : p.1 = k
        · rw [if_pos hpk, ← ih p.2 (h.2 p hp) ks]
          apply flatMap_congr'
          intro e _
          simp [hpk]
        · rw [if_neg hpk, List.flatMap_eq_nil_iff]
          intro e _
          simp [hpk]
      rw [flatMap_congr' _ _ _ step, flatMap_key (kidsOf t) h.1 k (fun c => (Level.find n c ks).getD [])]
      simp only [Level.find]
      cases AList.get? (kidsOf t) k <;> rfl

/-- the enumeration the code yields from a list of per-arity trees whose leaves are lists:
`(required, provided, item)` for every item of every leaf -/
def enumAll (l : List (ByOrder (List γ))) : List (List K × K × γ) :=
  l.flatMap fun b => (Level.entries (b.order+1) b.tree).flatMap fun e =>
    e.2.map fun g => (e.1.dropLast, e.1.getLast?.getD none, g)

/-- the key test on enumerated triples -/
def keyIs (reqK : List K) (provK : K) (t : List K × K × γ) : Bool := t.1 == reqK && t.2.1 == provK

theorem path_split (path : List K) (h : path ≠ []) (reqK : List K) (provK : K) :
    (path.dropLast == reqK && path.getLast?.getD none == provK) = true ↔ path = reqK ++ [provK] := by
  simp only [Bool.and_eq_true, beq_iff_eq]
  constructor
  · rintro ⟨h1, h2⟩
    have := List.dropLast_concat_getLast h
    rw [← this, h1]
    rw [List.getLast?_eq_some_getLast h] at h2
    simp only [Option.getD_some] at h2
    rw [h2]
  · intro e
    rw [e]
    simp

/-- **the enumeration restricted to one key is the leaf filed under that key** — same items, same order, same
multiplicities -/
theorem gather_enum (P : List γ → Prop) (l : List (ByOrder (List γ))) (hnd : (orders l).Nodup)
    (hwf : ∀ b ∈ l, LWF P (b.order+1) b.tree) (reqK : List K) (provK : K) :
    ((enumAll l).filter (keyIs reqK provK)).map (·.2.2) =
      (pathFind ([] : List γ) l reqK.length (reqK ++ [provK])).getD [] := by
  unfold enumAll
  rw [List.filter_flatMap, List.map_flatMap]
  have step : ∀ b ∈ l,
      (((Level.entries (b.order+1) b.tree).flatMap fun e =>
          e.2.map fun g => (e.1.dropLast, e.1.getLast?.getD none, g)).filter (keyIs reqK provK)).map (·.2.2) =
        if b.order = reqK.length then (Level.find (b.order+1) b.tree (reqK ++ [provK])).getD [] else [] := by
    intro b hb
    rw [List.filter_flatMap, List.map_flatMap]
    have inner : ∀ e ∈ Level.entries (b.order+1) b.tree,
        ((e.2.map fun g => (e.1.dropLast, e.1.getLast?.getD none, g)).filter (keyIs reqK provK)).map (·.2.2) =
          if e.1 = reqK ++ [provK] then e.2 else [] := by
      intro e he
      have hlen := entries_length _ _ e he
      have hne : e.1 ≠ [] := by intro h0; rw [h0] at hlen; simp at hlen
      rw [List.filter_map, List.map_map]
      have hc : (keyIs reqK provK ∘ fun g => (e.1.dropLast, e.1.getLast?.getD none, g)) =
          fun (_ : γ) => (e.1.dropLast == reqK && e.1.getLast?.getD none == provK) := rfl
      rw [hc]
      by_cases hp : e.1 = reqK ++ [provK]
      · rw [if_pos hp, (path_split e.1 hne reqK provK).mpr hp]
        have h1 : List.filter (fun (_ : γ) => true) e.2 = e.2 := List.filter_eq_self.mpr (fun _ _ => rfl)
        rw [h1]
        exact List.map_id' e.2
      · have : (e.1.dropLast == reqK && e.1.getLast?.getD none == provK) = false := by
          cases hcc : (e.1.dropLast == reqK && e.1.getLast?.getD none == provK) with
          | false => rfl
          | true => exact absurd ((path_split e.1 hne reqK provK).mp hcc) hp
        rw [if_neg hp, this]
        have h1 : List.filter (fun (_ : γ) => false) e.2 = [] := List.filter_eq_nil_iff.mpr (fun _ _ => by simp)
        rw [h1]; rfl
    rw [flatMap_congr' _ _ _ inner, gather_tree P _ _ (hwf b hb)]
    by_cases hbo : b.order = reqK.length
    · rw [if_pos hbo]
    · rw [if_neg hbo]
      cases hf : Level.find (b.order+1) b.tree (reqK ++ [provK]) with
      | none => rfl
      | some a =>
        have := find_length _ _ _ _ hf
        simp at this
        exact absurd this.symm hbo
  rw [flatMap_congr' _ _ _ step,
    flatMap_order ([] : List γ) l hnd reqK.length (fun n t => (Level.find (n+1) t (reqK ++ [provK])).getD [])]
  by_cases hn : reqK.length ∈ orders l
  · rw [if_pos hn]; rfl
  · rw [if_neg hn, pathFind_of_not_mem _ _ _ _ hn]; rfl

/-- membership form: a triple is enumerated iff its item is in the leaf filed under its key -/
theorem mem_enumAll_iff (P : List γ → Prop) (l : List (ByOrder (List γ))) (hnd : (orders l).Nodup)
    (hwf : ∀ b ∈ l, LWF P (b.order+1) b.tree) (reqK : List K) (provK : K) (g : γ) :
    (reqK, provK, g) ∈ enumAll l ↔ g ∈ (pathFind ([] : List γ) l reqK.length (reqK ++ [provK])).getD [] := by
  rw [← gather_enum P l hnd hwf reqK provK, List.mem_map]
  constructor
  · intro h
    exact ⟨(reqK, provK, g), List.mem_filter.mpr ⟨h, by simp [keyIs]⟩, rfl⟩
  · rintro ⟨t, ht, rfl⟩
    obtain ⟨h1, h2⟩ := List.mem_filter.mp ht
    simp only [keyIs, Bool.and_eq_true, beq_iff_eq] at h2
    obtain ⟨t1, t2, t3⟩ := t
    simp only at h2
    rw [← h2.1, ← h2.2]; exact h1

end Enum

/-! ### well-formed registries -/
/-- a `Names` leaf (`{name: value}`) has unique names -/
def NamesOk (names : Names) : Prop := (akeys names).Nodup

/-- container well-formedness of one registry: one container per arity, unique keys in every dict -/
structure RegWF (x : Reg) : Prop where
  aorders : (orders x.adapters).Nodup
  sorders : (orders x.subs).Nodup
  atrees : ∀ b ∈ x.adapters, LWF NamesOk (b.order+1) b.tree
  strees : ∀ b ∈ x.subs, LWF (fun _ : List Val => True) (b.order+1) b.tree

theorem regWF_empty : RegWF {} :=
  ⟨List.nodup_nil, List.nodup_nil, fun _ h => (by cases h), fun _ h => (by cases h)⟩

/-- the derived `==` of `Val` is lawful (needed to speak of `List.count`) -/
instance : LawfulBEq Val where
  eq_of_beq {a b} h := by
    cases a; cases b
    simp only [BEq.beq, instBEqVal.beq, Bool.and_eq_true, decide_eq_true_eq] at h
    simp_all
  rfl {a} := by
    cases a
    simp [BEq.beq, instBEqVal.beq]

theorem RegWF.of_dataEq {x y : Reg} (h : DataEq x y) (hy : RegWF y) : RegWF x := by
  obtain ⟨h1, h2, _, _⟩ := h
  exact ⟨h1 ▸ hy.aorders, h2 ▸ hy.sorders, h1 ▸ hy.atrees, h2 ▸ hy.strees⟩

theorem allRegistrations_eq (x : Reg) : allRegistrations x = enumAll (sortByOrder x.adapters) := rfl
theorem allSubscriptions_eq (x : Reg) : allSubscriptions x = enumAll (sortByOrder x.subs) := rfl

/-- the un-sorted enumerations (list order of `_adapters` / `_subscribers`) -/
def allRegistrationsU (x : Reg) : List (List K × K × String × Val) := enumAll x.adapters
def allSubscriptionsU (x : Reg) : List (List K × K × Val) := enumAll x.subs

section SortedOrders
variable {α : Type}

theorem orders_sort_nodup (l : List (ByOrder α)) (h : (orders l).Nodup) : (orders (sortByOrder l)).Nodup := by
  unfold orders at h ⊢
  exact ((sortByOrder_perm l).map (·.order)).symm.nodup h

theorem mem_sort_iff (l : List (ByOrder α)) (b : ByOrder α) : b ∈ sortByOrder l ↔ b ∈ l :=
  (sortByOrder_perm l).mem_iff

theorem orders_sort_mem (l : List (ByOrder α)) (n : Nat) : n ∈ orders (sortByOrder l) ↔ n ∈ orders l := by
  unfold orders
  exact ((sortByOrder_perm l).map (·.order)).mem_iff

/-- sorting the per-arity list does not change what any arity resolves to -/
theorem getOrder_sort (e : α) (l : List (ByOrder α)) (h : (orders l).Nodup) (n : Nat) :
    getOrder e (sortByOrder l) n = getOrder e l n := by
  by_cases hn : n ∈ orders l
  · have hm := mem_of_order_mem e l n hn
    exact getOrder_of_mem e _ (orders_sort_nodup l h) n _ ((mem_sort_iff l _).mpr hm)
  · rw [getOrder_of_not_mem e l n hn, getOrder_of_not_mem e _ n (fun h' => hn ((orders_sort_mem l n).mp h'))]

theorem pathFind_sort (e : α) (l : List (ByOrder α)) (h : (orders l).Nodup) (n : Nat) (path : List K) :
    pathFind e (sortByOrder l) n path = pathFind e l n path := by
  unfold pathFind; rw [getOrder_sort e l h n]

end SortedOrders

/-- `registered()` on raw container keys (what `allRegistrations()` yields): no `None` conversion -/
def registeredK (x : Reg) (reqK : List K) (provK : K) (name : String) : Option Val :=
  (pathFind ([] : Names) x.adapters reqK.length (reqK ++ [provK])).bind fun names => AList.get? names name

/-- the subscription leaf on raw container keys -/
def subsLeafK (x : Reg) (reqK : List K) (provK : K) : List Val :=
  (pathFind ([] : List Val) x.subs reqK.length (reqK ++ [provK])).getD []

theorem registered_eq_K (w : World) (r : Nat) (req : List (Option Id)) (prov : Id) (name : String) :
    registered w r req prov name = registeredK (w.reg r) (req.map convNone) (some prov) name := by
  rw [registered_eq]; unfold registeredK regPath; rw [List.length_map]

theorem subsLeaf_eq_K (w : World) (r : Nat) (req : List (Option Id)) (prov : Option Id) :
    subsLeaf w r req prov = subsLeafK (w.reg r) (req.map convNone) prov := by
  unfold subsLeaf subsFind subsLeafK regPath; rw [List.length_map]

theorem pathFind_namesOk (x : Reg) (h : RegWF x) (n : Nat) (path : List K) (names : Names)
    (hf : pathFind ([] : Names) x.adapters n path = some names) : NamesOk names := by
  unfold pathFind at hf
  refine lwf_find NamesOk (n+1) _ ?_ path names hf
  exact getOrder_prop ([] : Names) x.adapters (fun n t => LWF NamesOk (n+1) t) h.atrees
    (fun n => lwf_empty NamesOk [] List.nodup_nil (n+1)) n

theorem mem_names_iff (x : Reg) (h : RegWF x) (reqK : List K) (provK : K) (name : String) (v : Val) :
    (name, v) ∈ (pathFind ([] : Names) x.adapters reqK.length (reqK ++ [provK])).getD [] ↔
      registeredK x reqK provK name = some v := by
  unfold registeredK
  cases hf : pathFind ([] : Names) x.adapters reqK.length (reqK ++ [provK]) with
  | none => simp
  | some names =>
    simp only [Option.getD_some, Option.bind_some]
    exact ⟨aget_of_mem names (pathFind_namesOk x h _ _ names hf) name v, aget_some_mem names name v⟩

/-- **`allRegistrations()` is sound and complete for the flat map**: a tuple is yielded iff `registered` reads that
value under that key.  Hypothesis `RegWF x` (unique arities / keys / names; holds after every history,
`C09_provided_le`) is needed for soundness: `dict` keys are unique in Python, but the model's association lists could
hold a key twice, and then the enumeration also yields the shadowed binding that no lookup returns. -/
theorem mem_allRegistrations_iff (x : Reg) (h : RegWF x) (reqK : List K) (provK : K) (name : String) (v : Val) :
    (reqK, provK, name, v) ∈ allRegistrations x ↔ registeredK x reqK provK name = some v := by
  rw [allRegistrations_eq,
    mem_enumAll_iff NamesOk _ (orders_sort_nodup _ h.aorders) (fun b hb => h.atrees b ((mem_sort_iff _ b).mp hb)),
    pathFind_sort _ _ h.aorders]
  exact mem_names_iff x h reqK provK name v

/-- … the same for the un-sorted enumeration -/
theorem mem_allRegistrationsU_iff (x : Reg) (h : RegWF x) (reqK : List K) (provK : K) (name : String) (v : Val) :
    (reqK, provK, name, v) ∈ allRegistrationsU x ↔ registeredK x reqK provK name = some v := by
  unfold allRegistrationsU
  rw [mem_enumAll_iff NamesOk _ h.aorders h.atrees]
  exact mem_names_iff x h reqK provK name v

/-- in terms of `registered()` itself (whose keys are `None`-converted) -/
theorem allRegistrations_registered (w : World) (r : Nat) (h : RegWF (w.reg r)) (req : List (Option Id)) (prov : Id)
    (name : String) (v : Val) :
    (req.map convNone, some prov, name, v) ∈ allRegistrations (w.reg r) ↔ registered w r req prov name = some v := by
  rw [registered_eq_K]; exact mem_allRegistrations_iff (w.reg r) h _ _ name v

/-- **`allSubscriptions()` restricted to one key is the subscription leaf of that key**: same subscribers, same order,
same multiplicities.  (`RegWF x` needed as for `mem_allRegistrations_iff`: a duplicated key would contribute a second,
shadowed leaf.) -/
theorem allSubscriptions_leaf (x : Reg) (h : RegWF x) (reqK : List K) (provK : K) :
    ((allSubscriptions x).filter (keyIs reqK provK)).map (·.2.2) = subsLeafK x reqK provK := by
  rw [allSubscriptions_eq,
    gather_enum (fun _ => True) _ (orders_sort_nodup _ h.sorders) (fun b hb => h.strees b ((mem_sort_iff _ b).mp hb)),
    pathFind_sort _ _ h.sorders]
  rfl

theorem allSubscriptionsU_leaf (x : Reg) (h : RegWF x) (reqK : List K) (provK : K) :
    ((allSubscriptionsU x).filter (keyIs reqK provK)).map (·.2.2) = subsLeafK x reqK provK := by
  unfold allSubscriptionsU
  rw [gather_enum (fun _ => True) _ h.sorders h.strees]
  rfl

/-- the same fact for the registrations: the enumeration restricted to one path is the `Names` dict of that path -/
theorem allRegistrations_leaf (x : Reg) (h : RegWF x) (reqK : List K) (provK : K) :
    ((allRegistrations x).filter (keyIs reqK provK)).map (·.2.2) =
      (pathFind ([] : Names) x.adapters reqK.length (reqK ++ [provK])).getD [] := by
  rw [allRegistrations_eq,
    gather_enum NamesOk _ (orders_sort_nodup _ h.aorders) (fun b hb => h.atrees b ((mem_sort_iff _ b).mp hb)),
    pathFind_sort _ _ h.aorders]

/-- membership / multiplicity corollaries in terms of `subsLeaf` -/
theorem mem_allSubscriptions_iff (w : World) (r : Nat) (h : RegWF (w.reg r)) (req : List (Option Id)) (prov : Option Id) (v : Val) :
    (req.map convNone, prov, v) ∈ allSubscriptions (w.reg r) ↔ v ∈ subsLeaf w r req prov := by
  rw [subsLeaf_eq_K, allSubscriptions_eq,
    mem_enumAll_iff (fun _ => True) _ (orders_sort_nodup _ h.sorders) (fun b hb => h.strees b ((mem_sort_iff _ b).mp hb)),
    pathFind_sort _ _ h.sorders]
  rfl

theorem count_allSubscriptions (w : World) (r : Nat) (h : RegWF (w.reg r)) (req : List (Option Id)) (prov : Option Id) (v : Val) :
    (allSubscriptions (w.reg r)).count (req.map convNone, prov, v) = (subsLeaf w r req prov).count v := by
  rw [subsLeaf_eq_K, ← allSubscriptions_leaf (w.reg r) h]
  generalize allSubscriptions (w.reg r) = L
  induction L with
  | nil => rfl
  | cons t L ih =>
    rw [List.count_cons, List.filter_cons]
    by_cases hk : keyIs (req.map convNone) prov t = true
    · rw [if_pos hk, List.map_cons, List.count_cons, ih]
      obtain ⟨t1, t2, t3⟩ := t
      simp only [keyIs, Bool.and_eq_true, beq_iff_eq] at hk
      obtain ⟨h1, h2⟩ := hk
      subst h1 h2
      simp
    · rw [if_neg hk, ih]
      have : (t == (req.map convNone, prov, v)) = false := by
        cases hh : (t == (req.map convNone, prov, v)) with
        | false => rfl
        | true =>
          have := beq_iff_eq.mp hh
          rw [this] at hk
          simp [keyIs] at hk
      rw [this]; simp

/-! ## 4b. counting the bindings filed under a provided spec -/
section Count
variable {α : Type}

/-- what one leaf contributes to the count of `p`: its size if the path ends in `p` -/
def contrib (size : α → Nat) (p : K) (path : List K) (a : α) : Nat := if path.getLast? = some p then size a else 0

/-- (specification) total size of the leaves of a tree whose path ends in `p`, read off the enumeration `_allKeys` -/
def leafCount (size : α → Nat) (p : K) (n : Nat) (t : Level α n) : Nat :=
  ((Level.entries n t).map fun e => contrib size p e.1 e.2).sum

/-- … summed over the arities -/
def ordersCount (size : α → Nat) (p : K) (l : List (ByOrder α)) : Nat :=
  (l.map fun b => leafCount size p (b.order+1) b.tree).sum

/-- the same number by recursion over the tree -/
def Level.cnt (size : α → Nat) (p : K) : (n : Nat) → Level α (n+1) → Nat
  | 0, m => asum (fun k c => if k = p then size (leafOf c) else 0) (kidsOf m)
  | n+1, m => asum (fun _ c => Level.cnt size p n c) (kidsOf m)

theorem cnt_zero (size : α → Nat) (p : K) (m : Level α 1) :
    Level.cnt size p 0 m = asum (fun k c => if k = p then size (leafOf c) else 0) (kidsOf m) := rfl
theorem cnt_succ (size : α → Nat) (p : K) (n : Nat) (m : Level α (n+2)) :
    Level.cnt size p (n+1) m = asum (fun _ c => Level.cnt size p n c) (kidsOf m) := rfl

theorem sum_map_flatMap {β γ : Type} (l : List β) (f : β → List γ) (g : γ → Nat) :
    ((l.flatMap f).map g).sum = (l.map fun a => ((f a).map g).sum).sum := by
  induction l with
  | nil => rfl
  | cons a l ih => simp [List.flatMap_cons, ih]

theorem contrib_cons (size : α → Nat) (p : K) (k : K) (ks : List K) (h : ks ≠ []) (a : α) :
    contrib size p (k :: ks) a = contrib size p ks a := by
  unfold contrib
  cases ks with
  | nil => exact absurd rfl h
  | cons k' ks' => rw [List.getLast?_cons_cons]

theorem contrib_single (size : α → Nat) (p : K) (k : K) (a : α) :
    contrib size p [k] a = if k = p then size a else 0 := by
  unfold contrib
  simp

theorem leafCount_eq_cnt (size : α → Nat) (p : K) : ∀ (n : Nat) (t : Level α (n+1)),
    leafCount size p (n+1) t = Level.cnt size p n t := by
  intro n
  induction n with
  | zero =>
    intro t
    unfold leafCount
    rw [entries_succ, sum_map_flatMap, cnt_zero]
    unfold asum
    congr 1
    apply List.map_congr_left
    intro c _
    rw [entries_zero]
    simp [contrib_single]
  | succ n ih =>
    intro t
    unfold leafCount
    rw [entries_succ, sum_map_flatMap, cnt_succ]
    unfold asum
    congr 1
    apply List.map_congr_left
    intro c _
    show _ = Level.cnt size p n c.2
    rw [← ih c.2]
    unfold leafCount
    rw [List.map_map]
    congr 1
    apply List.map_congr_left
    intro e he
    have hl := entries_length _ _ e he
    have : e.1 ≠ [] := by intro h0; rw [h0] at hl; simp at hl
    exact contrib_cons size p c.1 e.1 this e.2

theorem cnt_empty (size : α → Nat) (p : K) (e : α) : ∀ n, Level.cnt size p n (Level.empty e (n+1)) = 0
  | 0 => rfl
  | _+1 => rfl

theorem cnt_of_no_kids (size : α → Nat) (p : K) : ∀ (n : Nat) (t : Level α (n+1)), kidsOf t = [] → Level.cnt size p n t = 0
  | 0, t, h => by rw [cnt_zero, h]; rfl
  | n+1, t, h => by rw [cnt_succ, h]; rfl

theorem update_cons (e : α) (f : α → α) (n : Nat) (m : Level α (n+1)) (k : K) (ks : List K) :
    Level.update e f (n+1) m (k :: ks) =
      mkNode (AList.set (kidsOf m) k (Level.update e f n ((AList.get? (kidsOf m) k).getD (Level.empty e n)) ks)) := rfl
theorem find_cons (n : Nat) (m : Level α (n+1)) (k : K) (ks : List K) :
    Level.find (n+1) m (k :: ks) = (AList.get? (kidsOf m) k).bind fun c => Level.find n c ks := rfl

/-- **the count under `update`**: the addressed leaf's contribution is exchanged, nothing else moves -/
theorem cnt_update (P : α → Prop) (size : α → Nat) (p : K) (e : α) (f : α → α) (hsz : size e = 0) (he : P e) :
    ∀ (n : Nat) (t : Level α (n+1)) (path : List K), LWF P (n+1) t → path.length = n+1 →
      Level.cnt size p n (Level.update e f (n+1) t path) + contrib size p path ((Level.find (n+1) t path).getD e) =
        Level.cnt size p n t + contrib size p path (f ((Level.find (n+1) t path).getD e)) := by
  intro n
  induction n with
  | zero =>
    intro t path h hl
    obtain ⟨k, rfl⟩ : ∃ k, path = [k] := by
      cases path with
      | nil => simp at hl
      | cons k ks => cases ks with
        | nil => exact ⟨k, rfl⟩
        | cons _ _ => simp at hl
    rw [lwf_succ] at h
    simp only [Level.update, Level.find]
    rw [cnt_zero, cnt_zero, kidsOf_mkNode', asum_set _ _ h.1,
      asum_split (fun k c => if k = p then size (leafOf c) else 0) (kidsOf t) h.1 k, contrib_single, contrib_single]
    cases hg : AList.get? (kidsOf t) k with
    | none =>
      simp only [Option.getD_none, Option.bind_none, Level.empty, leafOf_mkLeaf', hsz]
      split <;> omega
    | some c =>
      simp only [Option.getD_some, Option.bind_some, leafOf_mkLeaf']
      split <;> omega
  | succ n ih =>
    intro t path h hl
    cases path with
    | nil => simp at hl
    | cons k ks =>
      have hks : ks.length = n+1 := by simpa using hl
      have hne : ks ≠ [] := by intro h0; rw [h0] at hks; simp at hks
      rw [lwf_succ] at h
      rw [update_cons, find_cons]
      rw [cnt_succ, cnt_succ, kidsOf_mkNode', asum_set _ _ h.1,
        asum_split (fun _ c => Level.cnt size p n c) (kidsOf t) h.1 k, contrib_cons _ _ _ _ hne, contrib_cons _ _ _ _ hne]
      cases hg : AList.get? (kidsOf t) k with
      | none =>
        simp only [Option.getD_none, Option.bind_none]
        have := ih (Level.empty e (n+1)) ks (lwf_empty P e he (n+1)) hks
        rw [find_empty_succ, cnt_empty] at this
        simp only [Option.getD_none] at this
        omega
      | some c =>
        simp only [Option.getD_some, Option.bind_some]
        have := ih c ks (h.2 (k, c) (aget_some_mem _ _ _ hg)) hks
        omega

/-- **the count under `remove`** (pruning included): the addressed leaf's contribution is exchanged — an emptied leaf
must have size 0, so dropping it (and the containers emptied by that) changes nothing else -/
theorem cnt_remove (P : α → Prop) (size : α → Nat) (p : K) (isEmpty : α → Bool) (f : α → α)
    (hsz : ∀ a, isEmpty (f a) = true → size (f a) = 0) :
    ∀ (n : Nat) (t : Level α (n+1)) (path : List K) (a : α), LWF P (n+1) t → path.length = n+1 →
      Level.find (n+1) t path = some a →
      Level.cnt size p n (Level.remove isEmpty f (n+1) t path).1 + contrib size p path a =
        Level.cnt size p n t + contrib size p path (f a) := by
  intro n
  induction n with
  | zero =>
    intro t path a h hl hf
    obtain ⟨k, rfl⟩ : ∃ k, path = [k] := by
      cases path with
      | nil => simp at hl
      | cons k ks => cases ks with
        | nil => exact ⟨k, rfl⟩
        | cons _ _ => simp at hl
    rw [lwf_succ] at h
    simp only [Level.find] at hf
    cases hg : AList.get? (kidsOf t) k with
    | none => rw [hg] at hf; simp at hf
    | some c =>
      rw [hg] at hf
      simp only [Option.bind_some, Option.some.injEq] at hf
      subst hf
      rw [remove_step_some _ _ _ _ _ _ c hg]
      have hr1 : leafOf (Level.remove isEmpty f 0 c []).1 = f (leafOf c) := rfl
      have hr2 : (Level.remove isEmpty f 0 c []).2 = isEmpty (f (leafOf c)) := rfl
      rw [cnt_zero, cnt_zero, kidsOf_mkNode',
        asum_split (fun k c => if k = p then size (leafOf c) else 0) (kidsOf t) h.1 k, hg, contrib_single, contrib_single]
      by_cases hr : (Level.remove isEmpty f 0 c []).2 = true
      · rw [if_pos hr, hsz _ (hr2 ▸ hr)]
        simp only []
        split <;> omega
      · rw [if_neg hr, asum_set _ _ h.1, hr1]
        simp only []
        split <;> omega
  | succ n ih =>
    intro t path a h hl hf
    cases path with
    | nil => simp at hl
    | cons k ks =>
      have hks : ks.length = n+1 := by simpa using hl
      have hne : ks ≠ [] := by intro h0; rw [h0] at hks; simp at hks
      rw [lwf_succ] at h
      simp only [Level.find] at hf
      cases hg : AList.get? (kidsOf t) k with
      | none => rw [hg] at hf; simp at hf
      | some c =>
        rw [hg] at hf
        simp only [Option.bind_some] at hf
        have ihc := ih c ks a (h.2 (k, c) (aget_some_mem _ _ _ hg)) hks hf
        rw [remove_step_some _ _ _ _ _ _ c hg]
        rw [cnt_succ, cnt_succ, kidsOf_mkNode',
          asum_split (fun _ c => Level.cnt size p n c) (kidsOf t) h.1 k, hg, contrib_cons _ _ _ _ hne, contrib_cons _ _ _ _ hne]
        by_cases hr : (Level.remove isEmpty f (n+1) c ks).2 = true
        · rw [if_pos hr]
          have hz := cnt_of_no_kids size p n _ (remove_flag isEmpty f n c ks hr)
          simp only []
          omega
        · rw [if_neg hr, asum_set _ _ h.1]
          simp only []
          omega

end Count

/-! ### which keys occur at which depth -/
/-- every key at remaining depth `d` (0 = the provided level) satisfies `Q d` -/
def LKeys {α} (Q : Nat → K → Prop) : (n : Nat) → Level α n → Prop
  | 0, _ => True
  | n+1, m => ∀ c ∈ kidsOf m, Q n c.1 ∧ LKeys Q n c.2

/-- the same for a key path -/
def PathKeys (Q : Nat → K → Prop) : (n : Nat) → List K → Prop
  | _+1, [] => True
  | 0, _ => True
  | n+1, k :: ks => Q n k ∧ PathKeys Q n ks

theorem lkeys_succ {α} (Q : Nat → K → Prop) (n : Nat) (m : Level α (n+1)) :
    LKeys Q (n+1) m ↔ ∀ c ∈ kidsOf m, Q n c.1 ∧ LKeys Q n c.2 := Iff.rfl
theorem pathKeys_cons (Q : Nat → K → Prop) (n : Nat) (k : K) (ks : List K) :
    PathKeys Q (n+1) (k :: ks) ↔ Q n k ∧ PathKeys Q n ks := Iff.rfl

theorem lkeys_empty {α} (Q : Nat → K → Prop) (e : α) : ∀ n, LKeys Q n (Level.empty e n)
  | 0 => trivial
  | n+1 => by rw [lkeys_succ]; intro c hc; cases hc

theorem lkeys_update {α} (Q : Nat → K → Prop) (e : α) (f : α → α) :
    ∀ (n : Nat) (t : Level α n) (path : List K), LKeys Q n t → PathKeys Q n path → LKeys Q n (Level.update e f n t path) := by
  intro n
  induction n with
  | zero => intro t path _ _; trivial
  | succ n ih =>
    intro t path h hp
    cases path with
    | nil => exact h
    | cons k ks =>
      rw [lkeys_succ] at h
      rw [pathKeys_cons] at hp
      rw [update_cons, lkeys_succ, kidsOf_mkNode']
      intro c hc
      rcases mem_set _ _ _ _ hc with hc | hc
      · exact h c hc
      · rw [hc]
        refine ⟨hp.1, ih _ ks ?_ hp.2⟩
        cases hg : AList.get? (kidsOf t) k with
        | none => exact lkeys_empty Q e n
        | some ch => exact (h (k, ch) (aget_some_mem _ _ _ hg)).2

theorem lkeys_remove {α} (Q : Nat → K → Prop) (isEmpty : α → Bool) (f : α → α) :
    ∀ (n : Nat) (t : Level α n) (path : List K), LKeys Q n t → LKeys Q n (Level.remove isEmpty f n t path).1 := by
  intro n
  induction n with
  | zero => intro t path _; trivial
  | succ n ih =>
    intro t path h
    cases path with
    | nil => exact h
    | cons k ks =>
      cases hg : AList.get? (kidsOf t) k with
      | none => rw [remove_step_none _ _ _ _ _ _ hg]; exact h
      | some child =>
        rw [remove_step_some _ _ _ _ _ _ child hg]
        rw [lkeys_succ] at h
        rw [lkeys_succ, kidsOf_mkNode']
        split
        · exact fun c hc => h c (mem_erase _ _ _ hc).1
        · intro c hc
          rcases mem_set _ _ _ _ hc with hc | hc
          · exact h c hc
          · rw [hc]
            have := h (k, child) (aget_some_mem _ _ _ hg)
            exact ⟨this.1, ih child ks this.2⟩

/-- the paths enumerated from a tree carry the keys of the tree -/
theorem pathKeys_of_mem_entries {α} (Q : Nat → K → Prop) : ∀ (n : Nat) (t : Level α n), LKeys Q n t →
    ∀ e ∈ Level.entries n t, PathKeys Q n e.1 := by
  intro n
  induction n with
  | zero => intro t _ e _; trivial
  | succ n ih =>
    intro t h e he
    rw [lkeys_succ] at h
    rw [entries_succ] at he
    obtain ⟨p, hp, hp'⟩ := List.mem_flatMap.mp he
    obtain ⟨e', he', rfl⟩ := List.mem_map.mp hp'
    exact ⟨(h p hp).1, ih p.2 (h p hp).2 e' he'⟩

/-- keys of the adapter trees: every key is a spec (`None` was converted to `Interface`) -/
def QAll : Nat → K → Prop := fun _ k => k.isSome = true
/-- keys of the subscriber trees: every required key is a spec; the provided key may be `None` (handlers) -/
def QReq : Nat → K → Prop := fun d k => d ≠ 0 → k.isSome = true

theorem convNone_isSome (k : Option Id) : (convNone k).isSome = true := rfl

theorem convNone_of_isSome (k : K) (h : k.isSome = true) : convNone k = k := by
  cases k with
  | none => simp at h
  | some i => rfl

theorem pathKeys_map_convNone (Q : Nat → K → Prop) (hQ : ∀ d k, d ≠ 0 → k.isSome = true → Q d k) (prov : K) (hprov : Q 0 prov) :
    ∀ (req : List (Option Id)), PathKeys Q (req.length + 1) (req.map convNone ++ [prov])
  | [] => ⟨hprov, trivial⟩
  | k :: req => ⟨hQ _ _ (by simp) (convNone_isSome k), pathKeys_map_convNone Q hQ prov hprov req⟩

theorem pathKeys_regPath_all (req : List (Option Id)) (prov : Id) : PathKeys QAll (req.length + 1) (regPath req (some prov)) :=
  pathKeys_map_convNone QAll (fun _ _ _ h => h) (some prov) rfl req

theorem pathKeys_regPath_req (req : List (Option Id)) (prov : K) : PathKeys QReq (req.length + 1) (regPath req prov) :=
  pathKeys_map_convNone QReq (fun _ _ _ h _ => h) prov (fun h => absurd rfl h) req

/-- a path all of whose required keys are specs is a fixed point of the `None` conversion -/
theorem map_convNone_of_pathKeys (Q : Nat → K → Prop) (hQ : ∀ d k, d ≠ 0 → Q d k → k.isSome = true) :
    ∀ (reqK : List K) (provK : K), PathKeys Q (reqK.length + 1) (reqK ++ [provK]) → reqK.map convNone = reqK
  | [], _, _ => rfl
  | k :: reqK, provK, h => by
    have h' : Q (reqK.length + 1) k ∧ PathKeys Q (reqK.length + 1) (reqK ++ [provK]) := h
    rw [List.map_cons, convNone_of_isSome k (hQ _ k (by simp) h'.1), map_convNone_of_pathKeys Q hQ reqK provK h'.2]

theorem last_of_pathKeys (Q : Nat → K → Prop) :
    ∀ (reqK : List K) (provK : K), PathKeys Q (reqK.length + 1) (reqK ++ [provK]) → Q 0 provK
  | [], _, h => h.1
  | _ :: reqK, provK, h => last_of_pathKeys Q reqK provK h.2

/-! ### the count through the per-arity list -/
section OrdersCount
variable {α : Type}

theorem ordersCount_nil (size : α → Nat) (p : K) : ordersCount size p ([] : List (ByOrder α)) = 0 := rfl
theorem ordersCount_cons (size : α → Nat) (p : K) (b : ByOrder α) (l : List (ByOrder α)) :
    ordersCount size p (b :: l) = Level.cnt size p b.order b.tree + ordersCount size p l := by
  unfold ordersCount
  rw [List.map_cons, List.sum_cons, leafCount_eq_cnt]

/-- split off the tree of one arity (unique arities) -/
theorem ordersCount_split (size : α → Nat) (p : K) (e : α) (l : List (ByOrder α)) (hnd : (orders l).Nodup) (n : Nat) :
    ordersCount size p l =
      ordersCount size p (l.filter (fun b => !(b.order == n))) + Level.cnt size p n (getOrder e l n) := by
  induction l with
  | nil => rw [getOrder_of_not_mem e [] n (by simp [orders]), cnt_empty]; rfl
  | cons b l ih =>
    simp only [orders, List.map_cons, List.nodup_cons] at hnd
    by_cases hb : b.order = n
    · obtain ⟨o, t⟩ := b
      simp only at hb
      subst hb
      have hk : o ∉ orders l := hnd.1
      have ih' := ih hnd.2
      rw [getOrder_of_not_mem e l o hk, cnt_empty] at ih'
      rw [List.filter_cons, if_neg (by simp), ordersCount_cons,
        getOrder_of_find_some e _ o t (List.find?_cons_of_pos (by simp))]
      simp only at ih' ⊢
      omega
    · have hbb : (!(b.order == n)) = true := by simpa using hb
      rw [List.filter_cons, if_pos hbb, ordersCount_cons, ordersCount_cons, getOrder_cons_ne9 e b l n hb, ih hnd.2]
      omega

theorem filter_setOrder (l : List (ByOrder α)) (n : Nat) (t : Level α (n+1)) :
    (setOrder l n t).filter (fun b => !(b.order == n)) = l.filter (fun b => !(b.order == n)) := by
  unfold setOrder
  split
  · rename_i hany; clear hany
    induction l with
    | nil => rfl
    | cons b l ih =>
      rw [List.map_cons]
      by_cases hb : b.order = n
      · have hbb : (b.order == n) = true := by simpa using hb
        rw [if_pos hbb, List.filter_cons, List.filter_cons, if_neg (by simp), if_neg (by simp [hbb]), ih]
      · have hbb : (b.order == n) = false := by simpa using hb
        rw [if_neg (by simp [hbb]), List.filter_cons, List.filter_cons, if_pos (by simp [hbb]), if_pos (by simp [hbb]), ih]
  · rw [List.filter_append]
    simp

/-- writing the tree of one arity exchanges that tree's count -/
theorem ordersCount_setOrder (size : α → Nat) (p : K) (e : α) (l : List (ByOrder α)) (hnd : (orders l).Nodup) (n : Nat)
    (t : Level α (n+1)) :
    ordersCount size p (setOrder l n t) + Level.cnt size p n (getOrder e l n) =
      ordersCount size p l + Level.cnt size p n t := by
  rw [ordersCount_split size p e (setOrder l n t) (nodup_setOrder l n t hnd) n, filter_setOrder,
    getOrder_setOrder_same9, ordersCount_split size p e l hnd n]
  omega

theorem lwf_getOrder (P : α → Prop) (e : α) (he : P e) (l : List (ByOrder α)) (hwf : ∀ b ∈ l, LWF P (b.order+1) b.tree)
    (n : Nat) : LWF P (n+1) (getOrder e l n) :=
  getOrder_prop e l (fun n t => LWF P (n+1) t) hwf (fun n => lwf_empty P e he (n+1)) n

/-- **the count after an update at a path** -/
theorem ordersCount_update_path (P : α → Prop) (size : α → Nat) (p : K) (e : α) (f : α → α) (hsz : size e = 0) (he : P e)
    (l : List (ByOrder α)) (hnd : (orders l).Nodup) (hwf : ∀ b ∈ l, LWF P (b.order+1) b.tree) (n : Nat) (path : List K)
    (hl : path.length = n+1) :
    ordersCount size p (setOrder l n (Level.update e f (n+1) (getOrder e l n) path)) +
        contrib size p path ((pathFind e l n path).getD e) =
      ordersCount size p l + contrib size p path (f ((pathFind e l n path).getD e)) := by
  have h1 := ordersCount_setOrder size p e l hnd n (Level.update e f (n+1) (getOrder e l n) path)
  have h2 := cnt_update P size p e f hsz he n (getOrder e l n) path (lwf_getOrder P e he l hwf n) hl
  unfold pathFind
  omega

/-- **the count after a removal at a path** -/
theorem ordersCount_remove_path (P : α → Prop) (size : α → Nat) (p : K) (e : α) (he : P e) (isEmpty : α → Bool) (f : α → α)
    (hsz : ∀ a, isEmpty (f a) = true → size (f a) = 0)
    (l : List (ByOrder α)) (hnd : (orders l).Nodup) (hwf : ∀ b ∈ l, LWF P (b.order+1) b.tree) (n : Nat) (path : List K)
    (hl : path.length = n+1) (a : α) (hf : pathFind e l n path = some a) :
    ordersCount size p (setOrder l n (Level.remove isEmpty f (n+1) (getOrder e l n) path).1) + contrib size p path a =
      ordersCount size p l + contrib size p path (f a) := by
  have h1 := ordersCount_setOrder size p e l hnd n (Level.remove isEmpty f (n+1) (getOrder e l n) path).1
  have h2 := cnt_remove P size p isEmpty f hsz n (getOrder e l n) path a (lwf_getOrder P e he l hwf n) hl hf
  omega

/-- a leaf's contribution is part of the total -/
theorem contrib_le_ordersCount (P : α → Prop) (size : α → Nat) (p : K) (e : α) (he : P e) (hsz : size e = 0)
    (l : List (ByOrder α)) (hnd : (orders l).Nodup) (hwf : ∀ b ∈ l, LWF P (b.order+1) b.tree) (n : Nat) (path : List K)
    (hl : path.length = n+1) (a : α) (hf : pathFind e l n path = some a) :
    contrib size p path a ≤ ordersCount size p l := by
  have := ordersCount_remove_path P size p e he (fun _ => true) (fun _ => e) (fun _ _ => hsz) l hnd hwf n path hl a hf
  have h0 : contrib size p path e = 0 := by unfold contrib; split <;> simp [hsz]
  omega

end OrdersCount

theorem contrib_regPath {α} (size : α → Nat) (p : K) (req : List (Option Id)) (prov : K) (a : α) :
    contrib size p (regPath req prov) a = if prov = p then size a else 0 := by
  unfold contrib regPath
  rw [List.getLast?_concat]
  simp

/-- (specification) the number of registrations and subscriptions of a registry whose provided spec is `p`: the `(path,
name)` bindings of `_adapters` whose path ends in `p`, plus the lengths of the `_subscribers` leaves whose path ends in `p` -/
def provCount (x : Reg) (p : Id) : Nat :=
  ordersCount (fun names : Names => names.length) (some p) x.adapters +
  ordersCount (fun vs : List Val => vs.length) (some p) x.subs

/-! ## 4c. the `_provided` reference counts -/
/-- keys of the containers of a registry: adapters are filed under specs only, subscribers under required specs -/
structure RegKeys (x : Reg) : Prop where
  akeys : ∀ b ∈ x.adapters, LKeys QAll (b.order+1) b.tree
  skeys : ∀ b ∈ x.subs, LKeys QReq (b.order+1) b.tree

/-- the bookkeeping invariant of one registry -/
structure RegInv (x : Reg) : Prop where
  wf : RegWF x
  keys : RegKeys x
  /-- `_provided[p]` (0 when absent) is the number of registrations + subscriptions providing `p` -/
  count : ∀ p, (AList.get? x.provided p).getD 0 = provCount x p
  /-- no stored count is `0` (the entry is deleted instead) -/
  nozero : ∀ q ∈ x.provided, q.2 ≠ 0

theorem provCount_empty (p : Id) : provCount {} p = 0 := rfl

theorem regInv_empty : RegInv {} :=
  ⟨regWF_empty, ⟨fun _ h => (by cases h), fun _ h => (by cases h)⟩, fun _ => rfl, fun _ h => (by cases h)⟩

theorem RegKeys.of_dataEq {x y : Reg} (h : DataEq x y) (hy : RegKeys y) : RegKeys x := by
  obtain ⟨h1, h2, _, _⟩ := h
  exact ⟨h1 ▸ hy.akeys, h2 ▸ hy.skeys⟩

theorem RegInv.of_dataEq {x y : Reg} (h : DataEq x y) (hy : RegInv y) : RegInv x := by
  refine ⟨RegWF.of_dataEq h hy.wf, RegKeys.of_dataEq h hy.keys, ?_, ?_⟩
  · intro p
    have := hy.count p
    unfold provCount at this ⊢
    rw [h.adapters, h.subs, h.provided]; exact this
  · rw [h.provided]; exact hy.nozero

section Lengths
variable {κ : Type} [BEq κ] [LawfulBEq κ] [DecidableEq κ] {α : Type}
set_option linter.unusedSectionVars false

theorem length_set_of_none (m : AList κ α) (k : κ) (v : α) (h : AList.get? m k = none) :
    (AList.set m k v).length = m.length + 1 := by
  unfold AList.set
  have : ¬ m.any (·.1 == k) = true := by
    intro hany
    obtain ⟨x, hx, hxk⟩ := List.any_eq_true.mp hany
    have hxk' : x.1 = k := by simpa using hxk
    have hne : k ∈ akeys m := List.mem_map.mpr ⟨x, hx, hxk'⟩
    -- a present key resolves
    clear hany hx hxk hxk'
    induction m with
    | nil => cases hne
    | cons q t ih =>
      rw [aget_cons] at h
      by_cases hq : q.1 = k
      · rw [if_pos hq] at h; cases h
      · rw [if_neg hq] at h
        simp only [akeys, List.map_cons, List.mem_cons] at hne
        rcases hne with e | e
        · exact hq e.symm
        · exact ih h e
  rw [if_neg this]; simp

theorem length_set_of_some (m : AList κ α) (k : κ) (v a : α) (h : AList.get? m k = some a) :
    (AList.set m k v).length = m.length := by
  unfold AList.set
  have : m.any (·.1 == k) = true := by
    rw [any_key_iff]
    exact List.mem_map.mpr ⟨(k, a), aget_some_mem m k a h, rfl⟩
  rw [if_pos this]; simp

theorem length_eq_asum (m : AList κ α) : m.length = asum (fun _ _ => 1) m := by
  induction m with
  | nil => rfl
  | cons q t ih => rw [asum_cons, List.length_cons, ih]; omega

theorem length_erase_of_some (m : AList κ α) (hnd : (akeys m).Nodup) (k : κ) (a : α) (h : AList.get? m k = some a) :
    (AList.erase m k).length + 1 = m.length := by
  rw [length_eq_asum m, asum_split _ m hnd k, h, length_eq_asum]

end Lengths

/-! ### `register` keeps the invariant -/
theorem registerReg_wf (w : World) (x : Reg) (req : List (Option Id)) (prov : Id) (name : String) (v : Val) (h : RegWF x) :
    RegWF (registerReg w x req prov name v) := by
  refine ⟨?_, ?_, ?_, ?_⟩
  · rw [registerReg_adapters]; exact nodup_setOrder _ _ _ h.aorders
  · rw [registerReg_subs]; exact h.sorders
  · rw [registerReg_adapters]
    apply setOrder_prop x.adapters (fun n t => LWF NamesOk (n+1) t) h.atrees
    exact lwf_update NamesOk [] _ List.nodup_nil (fun a ha => nodup_set a name v ha) _ _ _
      (lwf_getOrder NamesOk [] List.nodup_nil _ h.atrees _)
  · rw [registerReg_subs]; exact h.strees

theorem lkeys_getOrder {α} (Q : Nat → K → Prop) (e : α) (l : List (ByOrder α)) (hk : ∀ b ∈ l, LKeys Q (b.order+1) b.tree)
    (n : Nat) : LKeys Q (n+1) (getOrder e l n) :=
  getOrder_prop e l (fun n t => LKeys Q (n+1) t) hk (fun n => lkeys_empty Q e (n+1)) n

theorem registerReg_keys (w : World) (x : Reg) (req : List (Option Id)) (prov : Id) (name : String) (v : Val) (h : RegKeys x) :
    RegKeys (registerReg w x req prov name v) := by
  refine ⟨?_, ?_⟩
  · rw [registerReg_adapters]
    apply setOrder_prop x.adapters (fun n t => LKeys QAll (n+1) t) h.akeys
    exact lkeys_update QAll [] _ _ _ _ (lkeys_getOrder QAll [] _ h.akeys _) (pathKeys_regPath_all req prov)
  · rw [registerReg_subs]; exact h.skeys

/-- the count after a (non-no-op) `register`: one more for `prov` exactly when the key was free -/
theorem provCount_registerReg (w : World) (x : Reg) (req : List (Option Id)) (prov : Id) (name : String) (v : Val) (h : RegWF x)
    (p : Id) :
    provCount (registerReg w x req prov name v) p =
      provCount x p + (if prov = p ∧ registeredK x (req.map convNone) (some prov) name = none then 1 else 0) := by
  unfold provCount
  rw [registerReg_adapters, registerReg_subs]
  have h1 := ordersCount_update_path NamesOk (fun names : Names => names.length) (some p) ([] : Names)
    (fun names => AList.set names name v) rfl List.nodup_nil x.adapters h.aorders h.atrees req.length
    (regPath req (some prov)) (regPath_length req _)
  rw [contrib_regPath, contrib_regPath] at h1
  simp only [Option.some.injEq] at h1
  have hreg : registeredK x (req.map convNone) (some prov) name =
      AList.get? ((pathFind ([] : Names) x.adapters req.length (regPath req (some prov))).getD []) name := by
    unfold registeredK regPath; rw [List.length_map, bind_get_eq]
  rw [hreg]
  generalize ordersCount (fun names : Names => names.length) (some p) (setOrder _ _ _) = A' at h1 ⊢
  generalize ordersCount (fun names : Names => names.length) (some p) x.adapters = A at h1 ⊢
  by_cases hp : prov = p
  · subst hp
    simp only [if_true, true_and] at h1 ⊢
    cases hg : AList.get? ((pathFind ([] : Names) x.adapters req.length (regPath req (some prov))).getD []) name with
    | none => rw [length_set_of_none _ _ _ hg] at h1; simp only [if_true]; omega
    | some a => rw [length_set_of_some _ _ _ a hg] at h1; simp only [if_false, reduceCtorEq]; omega
  · simp only [hp, if_false, false_and] at h1 ⊢
    omega

theorem registerReg_inv (w : World) (x : Reg) (req : List (Option Id)) (prov : Id) (name : String) (v : Val) (h : RegInv x)
    (hfree : registeredK x (req.map convNone) (some prov) name = none) : RegInv (registerReg w x req prov name v) := by
  refine ⟨registerReg_wf w x req prov name v h.wf, registerReg_keys w x req prov name v h.keys, ?_, ?_⟩
  · intro p
    rw [provCount_registerReg w x req prov name v h.wf p, registerReg_provided, aget_set, ← h.count p]
    by_cases hp : prov = p
    · subst hp; simp [hfree]
    · simp [hp]
  · rw [registerReg_provided]
    intro q hq
    rcases mem_set _ _ _ _ hq with hq | hq
    · exact h.nozero q hq
    · rw [hq]; simp

/-! ### `unregister` keeps the invariant -/
theorem unregisterReg_wf (w : World) (x : Reg) (req : List (Option Id)) (prov : Id) (name : String) (h : RegWF x) :
    RegWF (unregisterReg w x req prov name) := by
  refine ⟨?_, ?_, ?_, ?_⟩
  · rw [unregisterReg_adapters]; exact nodup_setOrder _ _ _ h.aorders
  · rw [unregisterReg_subs]; exact h.sorders
  · rw [unregisterReg_adapters]
    apply setOrder_prop x.adapters (fun n t => LWF NamesOk (n+1) t) h.atrees
    exact lwf_remove NamesOk _ _ (fun a ha => nodup_erase a name ha) _ _ _
      (lwf_getOrder NamesOk [] List.nodup_nil _ h.atrees _)
  · rw [unregisterReg_subs]; exact h.strees

theorem unregisterReg_keys (w : World) (x : Reg) (req : List (Option Id)) (prov : Id) (name : String) (h : RegKeys x) :
    RegKeys (unregisterReg w x req prov name) := by
  refine ⟨?_, ?_⟩
  · rw [unregisterReg_adapters]
    apply setOrder_prop x.adapters (fun n t => LKeys QAll (n+1) t) h.akeys
    exact lkeys_remove QAll _ _ _ _ _ (lkeys_getOrder QAll [] _ h.akeys _)
  · rw [unregisterReg_subs]; exact h.skeys

/-- the count after a removing `unregister`: one less for `prov` -/
theorem provCount_unregisterReg (w : World) (x : Reg) (req : List (Option Id)) (prov : Id) (name : String) (h : RegWF x)
    (old : Val) (hreg : registeredK x (req.map convNone) (some prov) name = some old) (p : Id) :
    provCount (unregisterReg w x req prov name) p + (if prov = p then 1 else 0) = provCount x p := by
  unfold provCount
  rw [unregisterReg_adapters, unregisterReg_subs]
  have hreg' : (pathFind ([] : Names) x.adapters req.length (regPath req (some prov))).bind
      (fun names => AList.get? names name) = some old := by
    unfold registeredK at hreg; rw [List.length_map] at hreg; exact hreg
  cases hpf : pathFind ([] : Names) x.adapters req.length (regPath req (some prov)) with
  | none => rw [hpf] at hreg'; simp at hreg'
  | some a =>
    rw [hpf] at hreg'
    simp only [Option.bind_some] at hreg'
    have hok : NamesOk a := pathFind_namesOk x h _ _ a hpf
    have h1 := ordersCount_remove_path NamesOk (fun names : Names => names.length) (some p) ([] : Names) List.nodup_nil
      (fun (names : Names) => names.isEmpty) (fun names => AList.erase names name)
      (fun a ha => by rw [List.isEmpty_iff.mp ha]; rfl) x.adapters h.aorders h.atrees req.length
      (regPath req (some prov)) (regPath_length req _) a hpf
    rw [contrib_regPath, contrib_regPath] at h1
    simp only [Option.some.injEq] at h1
    have hlen := length_erase_of_some a hok name old hreg'
    generalize ordersCount (fun names : Names => names.length) (some p) (setOrder _ _ _) = A' at h1 ⊢
    generalize ordersCount (fun names : Names => names.length) (some p) x.adapters = A at h1 ⊢
    by_cases hp : prov = p
    · simp only [hp, if_true] at h1 ⊢; omega
    · simp only [hp, if_false] at h1 ⊢; omega

theorem unregisterReg_inv (w : World) (x : Reg) (req : List (Option Id)) (prov : Id) (name : String) (h : RegInv x)
    (old : Val) (hreg : registeredK x (req.map convNone) (some prov) name = some old) :
    RegInv (unregisterReg w x req prov name) := by
  have hc := fun p => provCount_unregisterReg w x req prov name h.wf old hreg p
  refine ⟨unregisterReg_wf w x req prov name h.wf, unregisterReg_keys w x req prov name h.keys, ?_, ?_⟩
  · intro p
    rw [unregisterReg_provided]
    have hcp := hc p
    have hcount := h.count p
    by_cases hp : prov = p
    · subst hp
      simp only [if_true] at hcp
      split
      · rename_i hz; rw [aget_erase, if_pos rfl]; simp only [Option.getD_none]; omega
      · rename_i hz; rw [aget_set, if_pos rfl]; simp only [Option.getD_some]; omega
    · simp only [hp, if_false] at hcp
      split
      · rw [aget_erase, if_neg hp]; omega
      · rw [aget_set, if_neg hp]; omega
  · rw [unregisterReg_provided]
    intro q hq
    split at hq
    · exact h.nozero q (mem_erase _ _ _ hq).1
    · rename_i hz
      rcases mem_set _ _ _ _ hq with hq | hq
      · exact h.nozero q hq
      · rw [hq]; exact hz

/-! ### `subscribe` keeps the invariant -/
theorem subscribeReg_wf (w : World) (x : Reg) (req : List (Option Id)) (prov : Option Id) (v : Val) (h : RegWF x) :
    RegWF (subscribeReg w x req prov v) := by
  refine ⟨?_, ?_, ?_, ?_⟩
  · rw [subscribeReg_adapters]; exact h.aorders
  · rw [subscribeReg_subs]; exact nodup_setOrder _ _ _ h.sorders
  · rw [subscribeReg_adapters]; exact h.atrees
  · rw [subscribeReg_subs]
    apply setOrder_prop x.subs (fun n t => LWF (fun _ : List Val => True) (n+1) t) h.strees
    exact lwf_update (fun _ : List Val => True) [] _ trivial (fun _ _ => trivial) _ _ _
      (lwf_getOrder (fun _ : List Val => True) [] trivial _ h.strees _)

theorem subscribeReg_keys (w : World) (x : Reg) (req : List (Option Id)) (prov : Option Id) (v : Val) (h : RegKeys x) :
    RegKeys (subscribeReg w x req prov v) := by
  refine ⟨?_, ?_⟩
  · rw [subscribeReg_adapters]; exact h.akeys
  · rw [subscribeReg_subs]
    apply setOrder_prop x.subs (fun n t => LKeys QReq (n+1) t) h.skeys
    exact lkeys_update QReq [] _ _ _ _ (lkeys_getOrder QReq [] _ h.skeys _) (pathKeys_regPath_req req prov)

theorem provCount_subscribeReg (w : World) (x : Reg) (req : List (Option Id)) (prov : Option Id) (v : Val) (h : RegWF x) (p : Id) :
    provCount (subscribeReg w x req prov v) p = provCount x p + (if prov = some p then 1 else 0) := by
  unfold provCount
  rw [subscribeReg_adapters, subscribeReg_subs]
  have h1 := ordersCount_update_path (fun _ : List Val => True) (fun vs : List Val => vs.length) (some p) ([] : List Val)
    (fun vs => vs ++ [v]) rfl trivial x.subs h.sorders h.strees req.length (regPath req prov) (regPath_length req _)
  rw [contrib_regPath, contrib_regPath] at h1
  generalize ordersCount (fun vs : List Val => vs.length) (some p) (setOrder _ _ _) = A' at h1 ⊢
  generalize ordersCount (fun vs : List Val => vs.length) (some p) x.subs = A at h1 ⊢
  by_cases hp : prov = some p
  · simp only [hp, if_true, List.length_append, List.length_cons, List.length_nil] at h1 ⊢; omega
  · simp only [hp, if_false] at h1 ⊢; omega

theorem subscribeReg_inv (w : World) (x : Reg) (req : List (Option Id)) (prov : Option Id) (v : Val) (h : RegInv x) :
    RegInv (subscribeReg w x req prov v) := by
  refine ⟨subscribeReg_wf w x req prov v h.wf, subscribeReg_keys w x req prov v h.keys, ?_, ?_⟩
  · intro p
    rw [provCount_subscribeReg w x req prov v h.wf p, subscribeReg_provided, ← h.count p]
    cases prov with
    | none => simp
    | some q =>
      simp only [aget_set, Option.some.injEq]
      by_cases hq : q = p
      · subst hq; simp
      · simp [hq]
  · rw [subscribeReg_provided]
    intro q hq
    cases prov with
    | none => exact h.nozero q hq
    | some q' =>
      simp only at hq
      rcases mem_set _ _ _ _ hq with hq | hq
      · exact h.nozero q hq
      · rw [hq]; simp

/-! ### `unsubscribe` keeps the invariant -/
theorem unsubscribeReg_wf (w : World) (x : Reg) (req : List (Option Id)) (prov : Option Id) (old new : List Val) (h : RegWF x) :
    RegWF (unsubscribeReg w x req prov old new) := by
  refine ⟨?_, ?_, ?_, ?_⟩
  · rw [unsubscribeReg_adapters]; exact h.aorders
  · rw [unsubscribeReg_subs]; exact nodup_setOrder _ _ _ h.sorders
  · rw [unsubscribeReg_adapters]; exact h.atrees
  · rw [unsubscribeReg_subs]
    apply setOrder_prop x.subs (fun n t => LWF (fun _ : List Val => True) (n+1) t) h.strees
    exact lwf_remove (fun _ : List Val => True) _ _ (fun _ _ => trivial) _ _ _
      (lwf_getOrder (fun _ : List Val => True) [] trivial _ h.strees _)

theorem unsubscribeReg_keys (w : World) (x : Reg) (req : List (Option Id)) (prov : Option Id) (old new : List Val) (h : RegKeys x) :
    RegKeys (unsubscribeReg w x req prov old new) := by
  refine ⟨?_, ?_⟩
  · rw [unsubscribeReg_adapters]; exact h.akeys
  · rw [unsubscribeReg_subs]
    apply setOrder_prop x.subs (fun n t => LKeys QReq (n+1) t) h.skeys
    exact lkeys_remove QReq _ _ _ _ _ (lkeys_getOrder QReq [] _ h.skeys _)

theorem provCount_unsubscribeReg (w : World) (x : Reg) (req : List (Option Id)) (prov : Option Id) (old new : List Val)
    (h : RegWF x) (hf : pathFind ([] : List Val) x.subs req.length (regPath req prov) = some old) (p : Id) :
    provCount (unsubscribeReg w x req prov old new) p + (if prov = some p then old.length else 0) =
      provCount x p + (if prov = some p then new.length else 0) ∧
    (if prov = some p then old.length else 0) ≤ provCount x p := by
  unfold provCount
  rw [unsubscribeReg_adapters, unsubscribeReg_subs]
  have h1 := ordersCount_remove_path (fun _ : List Val => True) (fun vs : List Val => vs.length) (some p) ([] : List Val) trivial
    (fun (vs : List Val) => vs.isEmpty) (fun _ => new)
    (fun _ ha => by rw [List.isEmpty_iff.mp ha]; rfl) x.subs h.sorders h.strees req.length
    (regPath req prov) (regPath_length req _) old hf
  have h2 := contrib_le_ordersCount (fun _ : List Val => True) (fun vs : List Val => vs.length) (some p) ([] : List Val) trivial rfl
    x.subs h.sorders h.strees req.length (regPath req prov) (regPath_length req _) old hf
  rw [contrib_regPath, contrib_regPath] at h1
  rw [contrib_regPath] at h2
  generalize ordersCount (fun vs : List Val => vs.length) (some p) (setOrder _ _ _) = A' at h1 ⊢
  generalize ordersCount (fun vs : List Val => vs.length) (some p) x.subs = A at h1 h2 ⊢
  by_cases hp : prov = some p
  · simp only [hp, if_true] at h1 h2 ⊢; omega
  · simp only [hp, if_false] at h1 h2 ⊢; omega

theorem unsubscribeReg_inv (w : World) (x : Reg) (req : List (Option Id)) (prov : Option Id) (old new : List Val) (h : RegInv x)
    (hf : pathFind ([] : List Val) x.subs req.length (regPath req prov) = some old) :
    RegInv (unsubscribeReg w x req prov old new) := by
  have hc := fun p => provCount_unsubscribeReg w x req prov old new h.wf hf p
  refine ⟨unsubscribeReg_wf w x req prov old new h.wf, unsubscribeReg_keys w x req prov old new h.keys, ?_, ?_⟩
  · intro p
    rw [unsubscribeReg_provided]
    obtain ⟨hcp, hle⟩ := hc p
    have hcount := h.count p
    cases prov with
    | none => simp only [reduceCtorEq, if_false] at hcp ⊢; omega
    | some q =>
      simp only [Option.some.injEq] at hcp hle ⊢
      by_cases hq : q = p
      · subst hq
        simp only [if_true] at hcp hle
        split
        · rename_i hz; rw [aget_erase, if_pos rfl]; simp only [Option.getD_none]; omega
        · rename_i hz; rw [aget_set, if_pos rfl]; simp only [Option.getD_some]; omega
      · simp only [hq, if_false] at hcp
        split
        · rw [aget_erase, if_neg hq]; omega
        · rw [aget_set, if_neg hq]; omega
  · rw [unsubscribeReg_provided]
    intro q hq
    cases prov with
    | none => exact h.nozero q hq
    | some q' =>
      simp only at hq
      split at hq
      · exact h.nozero q (mem_erase _ _ _ hq).1
      · rename_i hz
        rcases mem_set _ _ _ _ hq with hq | hq
        · exact h.nozero q hq
        · rw [hq]; exact hz

/-! ### the invariant of a whole world, and the mutators -/
/-- every registry of the world satisfies the bookkeeping invariant -/
def WInv (w : World) : Prop := ∀ r, RegInv (w.reg r)

theorem winv_of_sameData {w w' : World} (h : SameData w w') (hi : WInv w) : WInv w' :=
  fun r => RegInv.of_dataEq (h.at r) (hi r)

theorem winv_mut (fuel : Nat) (w : World) (r : Nat) (X : Reg) (hi : WInv w) (hX : RegInv X) :
    WInv (changed fuel (w.setReg r X) r) := by
  intro r'
  by_cases hr : r' = r
  · subst hr; exact RegInv.of_dataEq (mut_data_same fuel w r' X) hX
  · exact RegInv.of_dataEq (mut_data_ne fuel w r X hr) (hi r')

theorem winv_setReg (w : World) (r : Nat) (X : Reg) (hi : WInv w) (hX : RegInv X) : WInv (w.setReg r X) := by
  intro r'
  by_cases hr : r' = r
  · subst hr; rw [reg_setReg_same]; exact hX
  · rw [reg_setReg_ne _ hr]; exact hi r'

/-- the guard of `register`: it does not *replace* a different object under an occupied key.  (Replacing is allowed by
the code, but `BaseAdapterRegistry.register` then increments `_provided[provided]` a second time for the same key — see
`provided_leak` below — so the reference count stops being the number of registrations.) -/
def RegisterGuard (w : World) (r : Nat) (req : List (Option Id)) (prov : Id) (name : String) (v : Val) : Prop :=
  ∀ old, registered w r req prov name = some old → old.ident = v.ident

theorem register_winv (fuel : Nat) (w : World) (r : Nat) (req : List (Option Id)) (prov : Id) (name : String) (v : Val)
    (hi : WInv w) (hg : RegisterGuard w r req prov name v) : WInv (register fuel w r req prov name v) := by
  rw [register_eq]
  split
  · exact hi
  · rename_i hno
    apply winv_mut fuel w r _ hi
    apply registerReg_inv w (w.reg r) req prov name v (hi r)
    rw [← registered_eq_K]
    cases hreg : registered w r req prov name with
    | none => rfl
    | some old =>
      exfalso; apply hno
      rw [hreg]; simp [hg old hreg]

theorem unregister_winv (fuel : Nat) (w : World) (r : Nat) (req : List (Option Id)) (prov : Id) (name : String) (v : Option Val)
    (hi : WInv w) : WInv (unregister fuel w r req prov name v) := by
  rw [unregister_eq]
  split
  · exact hi
  · split
    · exact hi
    · rename_i old hold
      split
      · exact hi
      · apply winv_mut fuel w r _ hi
        rw [registered_eq_K] at hold
        exact unregisterReg_inv w (w.reg r) req prov name (hi r) old hold

theorem subscribe_winv (fuel : Nat) (w : World) (r : Nat) (req : List (Option Id)) (prov : Option Id) (v : Val)
    (hi : WInv w) : WInv (subscribe fuel w r req prov v) := by
  rw [subscribe_eq]
  exact winv_mut fuel w r _ hi (subscribeReg_inv w (w.reg r) req prov v (hi r))

theorem unsubscribe_winv (fuel : Nat) (w : World) (r : Nat) (req : List (Option Id)) (prov : Option Id) (v : Option Val)
    (hi : WInv w) : WInv (unsubscribe fuel w r req prov v) := by
  rw [unsubscribe_eq]
  split
  · exact hi
  · split
    · exact hi
    · rename_i old hold
      split
      · exact hi
      · split
        · exact hi
        · exact winv_mut fuel w r _ hi (unsubscribeReg_inv w (w.reg r) req prov old _ (hi r) hold)

theorem reg_emptyPush9 (sro iro : Id → List Id) (r : Nat) : (emptyPush sro iro).reg r = {} := rfl

theorem winv_empty (sro iro : Id → List Id) : WInv (emptyPush sro iro) := fun _ => regInv_empty

/-! ## 6. `rebuild()`: reset, then replay the enumerations -/
/-- the replay loops of `rebuild` -/
def replayRegs (fuel : Nat) (r : Nat) (L : List (List K × K × String × Val)) (w : World) : World :=
  L.foldl (fun w e => register fuel w r e.1 (e.2.1.getD 0) e.2.2.1 e.2.2.2) w
def replaySubs (fuel : Nat) (r : Nat) (L : List (List K × K × Val)) (w : World) : World :=
  L.foldl (fun w e => subscribe fuel w r e.1 e.2.1 e.2.2) w

/-- the registry record right after the re-`__init__` of `rebuild` -/
def resetReg (x : Reg) : Reg :=
  { x with adapters := [], subs := [], provided := [], extendors := [],
           cache := [], mcache := [], scache := [], verifyRo := [], verifyGen := [] }

theorem rebuild_eq9 (fuel : Nat) (w : World) (r : Nat) :
    rebuild fuel w r = replaySubs fuel r (allSubscriptions (w.reg r))
      (replayRegs fuel r (allRegistrations (w.reg r)) (setBases fuel (w.setReg r (resetReg (w.reg r))) r (w.reg r).bases)) := rfl

/-- what the replay needs of the list it replays: keys are fixed points of the `None` conversion (they were produced by
it), and a key occurs with one value only -/
structure RegsOk (regs : List (List K × K × String × Val)) : Prop where
  conv : ∀ e ∈ regs, e.1.map convNone = e.1 ∧ some (e.2.1.getD 0) = e.2.1
  func : ∀ e ∈ regs, ∀ e' ∈ regs, e.1 = e'.1 → e.2.1 = e'.2.1 → e.2.2.1 = e'.2.2.1 → e.2.2.2 = e'.2.2.2

/-- the invariant of the replay loop: some world invariant `I` that guarded `register`s keep (instantiated with `WInv`
for the counts and with `True` for the purely semantic statement), and: whatever is registered came from the list -/
structure ReplayInv (I : World → Prop) (regs : List (List K × K × String × Val)) (r : Nat) (w : World) : Prop where
  winv : I w
  sound : ∀ req prov name v', registered w r req prov name = some v' → (req.map convNone, some prov, name, v') ∈ regs

theorem replay_step (I : World → Prop) (fuel : Nat) (r : Nat)
    (hI : ∀ w req p n v, I w → RegisterGuard w r req p n v → I (register fuel w r req p n v))
    (regs : List (List K × K × String × Val)) (ok : RegsOk regs) (w : World)
    (hi : ReplayInv I regs r w) (e : List K × K × String × Val) (he : e ∈ regs) :
    ReplayInv I regs r (register fuel w r e.1 (e.2.1.getD 0) e.2.2.1 e.2.2.2) ∧
    registered (register fuel w r e.1 (e.2.1.getD 0) e.2.2.1 e.2.2.2) r e.1 (e.2.1.getD 0) e.2.2.1 = some e.2.2.2 ∧
    (∀ req prov name v', registered w r req prov name = some v' →
      registered (register fuel w r e.1 (e.2.1.getD 0) e.2.2.1 e.2.2.2) r req prov name = some v') := by
  obtain ⟨req, provK, n, v⟩ := e
  obtain ⟨hconv1, hconv2⟩ := ok.conv _ he
  simp only at hconv1 hconv2 ⊢
  generalize hp : provK.getD 0 = p at hconv2 ⊢
  have hval : ∀ old, registered w r req p n = some old → old = v := by
    intro old hold
    have := hi.sound req p n old hold
    rw [hconv1, hconv2] at this
    exact ok.func _ this _ he rfl rfl rfl
  have hafter : (if (registered w r req p n).map (·.ident) = some v.ident then registered w r req p n else some v) = some v := by
    split
    · rename_i hno
      cases hreg : registered w r req p n with
      | none => rw [hreg] at hno; simp at hno
      | some old => rw [hval old hreg]
    · rfl
  refine ⟨⟨hI w req p n v hi.winv (fun old hold => by rw [hval old hold]), ?_⟩, ?_, ?_⟩
  · intro req' prov' name' v' h
    rw [registered_register] at h
    split at h
    · rename_i hk
      obtain ⟨_, h2, h3, h4⟩ := hk
      rw [hafter] at h
      simp only [Option.some.injEq] at h
      rw [h2, h3, h4, ← h, hconv1, hconv2]; exact he
    · exact hi.sound req' prov' name' v' h
  · rw [registered_register, if_pos ⟨rfl, rfl, rfl, rfl⟩]; exact hafter
  · intro req' prov' name' v' h
    rw [registered_register]
    split
    · rename_i hk
      obtain ⟨h1, h2, h3, h4⟩ := hk
      subst h3 h4
      rw [registered_congr w r req req' prov' name' h2] at h
      rw [hafter, hval v' h]
    · exact h

theorem replay_regs (I : World → Prop) (fuel : Nat) (r : Nat)
    (hI : ∀ w req p n v, I w → RegisterGuard w r req p n v → I (register fuel w r req p n v))
    (regs : List (List K × K × String × Val)) (ok : RegsOk regs) :
    ∀ (L : List (List K × K × String × Val)) (w : World), (∀ e ∈ L, e ∈ regs) → ReplayInv I regs r w →
      ReplayInv I regs r (replayRegs fuel r L w) ∧
      (∀ e ∈ L, registered (replayRegs fuel r L w) r e.1 (e.2.1.getD 0) e.2.2.1 = some e.2.2.2) ∧
      (∀ req prov name v', registered w r req prov name = some v' →
        registered (replayRegs fuel r L w) r req prov name = some v') := by
  intro L
  induction L with
  | nil => intro w _ hi; exact ⟨hi, fun _ h => (by cases h), fun _ _ _ _ h => h⟩
  | cons e L ih =>
    intro w hL hi
    obtain ⟨s1, s2, s3⟩ := replay_step I fuel r hI regs ok w hi e (hL e (List.mem_cons_self ..))
    obtain ⟨t1, t2, t3⟩ := ih _ (fun e' he' => hL e' (List.mem_cons_of_mem _ he')) s1
    refine ⟨t1, ?_, fun req prov name v' h => t3 _ _ _ _ (s3 _ _ _ _ h)⟩
    intro e' he'
    rcases List.mem_cons.mp he' with h | h
    · rw [h]; exact t3 _ _ _ _ s2
    · exact t2 e' h

theorem replaySubs_winv (fuel : Nat) (r : Nat) : ∀ (L : List (List K × K × Val)) (w : World), WInv w → WInv (replaySubs fuel r L w)
  | [], _, h => h
  | e :: L, w, h => replaySubs_winv fuel r L _ (subscribe_winv fuel w r e.1 e.2.1 e.2.2 h)

theorem pathKeys_of_pathFind {α} (Q : Nat → K → Prop) (e : α) (l : List (ByOrder α)) (hk : ∀ b ∈ l, LKeys Q (b.order+1) b.tree)
    (n : Nat) (path : List K) (a : α) (hf : pathFind e l n path = some a) : PathKeys Q (n+1) path :=
  pathKeys_of_mem_entries Q (n+1) _ (lkeys_getOrder Q e l hk n) (path, a) (mem_entries_of_find_some _ _ _ _ hf)

/-- the enumeration of a well-formed registry can be replayed -/
theorem regsOk_allRegistrations (x : Reg) (hwf : RegWF x) (hkeys : RegKeys x) : RegsOk (allRegistrations x) := by
  refine ⟨?_, ?_⟩
  · intro e he
    obtain ⟨reqK, provK, n, v⟩ := e
    rw [mem_allRegistrations_iff x hwf] at he
    unfold registeredK at he
    cases hpf : pathFind ([] : Names) x.adapters reqK.length (reqK ++ [provK]) with
    | none => rw [hpf] at he; simp at he
    | some names =>
      have hk := pathKeys_of_pathFind QAll _ _ hkeys.akeys _ _ _ hpf
      refine ⟨map_convNone_of_pathKeys QAll (fun _ _ _ hq => hq) reqK provK hk, ?_⟩
      have : provK.isSome = true := last_of_pathKeys QAll reqK provK hk
      cases provK with
      | none => simp at this
      | some q => rfl
  · intro e he e' he' h1 h2 h3
    obtain ⟨reqK, provK, n, v⟩ := e
    obtain ⟨reqK', provK', n', v'⟩ := e'
    simp only at h1 h2 h3 ⊢
    subst h1 h2 h3
    rw [mem_allRegistrations_iff x hwf] at he he'
    rw [he] at he'
    exact Option.some.inj he'

theorem resetReg_dataEq (x : Reg) : DataEq (resetReg x) {} := ⟨rfl, rfl, rfl, rfl⟩

theorem winv_reset (fuel : Nat) (w : World) (r : Nat) (bs : List Nat) (hi : WInv w) :
    WInv (setBases fuel (w.setReg r (resetReg (w.reg r))) r bs) :=
  winv_of_sameData (setBases_sameData fuel _ r bs)
    (winv_setReg w r _ hi (RegInv.of_dataEq (resetReg_dataEq _) regInv_empty))

theorem registered_reset (fuel : Nat) (w : World) (r : Nat) (bs : List Nat) (req : List (Option Id)) (prov : Id) (name : String) :
    registered (setBases fuel (w.setReg r (resetReg (w.reg r))) r bs) r req prov name = none := by
  rw [registered_eq, (setBases_sameData fuel _ r bs).adapters r, reg_setReg_same,
    pathFind_of_not_mem _ _ _ _ (by simp [resetReg, orders])]
  rfl

/-- **`rebuild()` keeps the bookkeeping invariant** -/
theorem rebuild_winv (fuel : Nat) (w : World) (r : Nat) (hi : WInv w) : WInv (rebuild fuel w r) := by
  rw [rebuild_eq9]
  apply replaySubs_winv
  have ok := regsOk_allRegistrations (w.reg r) (hi r).wf (hi r).keys
  have h2 : ReplayInv WInv (allRegistrations (w.reg r)) r (setBases fuel (w.setReg r (resetReg (w.reg r))) r (w.reg r).bases) :=
    ⟨winv_reset fuel w r _ hi, fun req prov name v' h => by rw [registered_reset] at h; cases h⟩
  exact (replay_regs WInv fuel r (fun w req p n v => register_winv fuel w r req p n v) _ ok _ _ (fun _ h => h) h2).1.winv

/-! ### histories: the `_provided` counts are exact -/
/-- guards of a history step (only `register` has one, see `RegisterGuard`) -/
def CGuard (w : World) : Op → Prop
  | .register r req p n v => RegisterGuard w r req p n v
  | _ => True

def CGuardHist (fuel : Nat) : World → List Op → Prop
  | _, [] => True
  | w, op :: ops => CGuard w op ∧ CGuardHist fuel (step fuel w op) ops

theorem step_winv (fuel : Nat) (w : World) (hi : WInv w) (op : Op) (hg : CGuard w op) : WInv (step fuel w op) := by
  cases op with
  | newreg r bs => exact winv_of_sameData (setBases_sameData fuel _ r bs) (winv_setReg w r {} hi regInv_empty)
  | setBases r bs => exact winv_of_sameData (setBases_sameData fuel w r bs) hi
  | rebuild r => exact rebuild_winv fuel w r hi
  | register r req p n v => exact register_winv fuel w r req p n v hi hg
  | unregister r req p n v => exact unregister_winv fuel w r req p n v hi
  | subscribe r req p v => exact subscribe_winv fuel w r req p v hi
  | unsubscribe r req p v => exact unsubscribe_winv fuel w r req p v hi
  | lookup r req p n => exact winv_of_sameData (lookup_sameData w r req p n) hi
  | lookupAll r req p => exact winv_of_sameData (lookupAll_sameData w r req p) hi
  | subscriptions r req p => exact winv_of_sameData (subscriptions_sameData w r req p) hi

theorem run_winv (fuel : Nat) : ∀ (ops : List Op) (w : World), WInv w → CGuardHist fuel w ops → WInv (run fuel w ops)
  | [], _, h, _ => h
  | op :: ops, w, h, hg => run_winv fuel ops (step fuel w op) (step_winv fuel w h op hg.1) hg.2

/-- **C09, `_provided`** — after ANY history of registry operations (creation, re-basing, `rebuild()`, `register`,
`unregister`, `subscribe`, `unsubscribe`, lookups; any recursion fuel) from the empty world in which no `register`
replaces a different object under an occupied key, for every registry and every spec `p`: `_provided.get(p, 0)` is exactly
the number of registrations and subscriptions currently providing `p`, and no stored count is `0`.

The guard is needed: `register` with a new object for an occupied key overwrites the value but still increments
`_provided[provided]` (`provided_leak` below evaluates the model on such a history: count 2, one registration). -/
theorem C09_provided (fuel : Nat) (sro iro : Id → List Id) (ops : List Op) (hg : CGuardHist fuel (emptyPush sro iro) ops)
    (r : Nat) :
    (∀ p, (AList.get? ((run fuel (emptyPush sro iro) ops).reg r).provided p).getD 0 =
            provCount ((run fuel (emptyPush sro iro) ops).reg r) p) ∧
    (∀ q ∈ ((run fuel (emptyPush sro iro) ops).reg r).provided, q.2 ≠ 0) :=
  let h := run_winv fuel ops _ (winv_empty sro iro) hg r
  ⟨h.count, h.nozero⟩

/-! ### `rebuild()` changes none of the registration data that can be observed -/
theorem DataEq.refl (x : Reg) : DataEq x x := ⟨rfl, rfl, rfl, rfl⟩
theorem DataEq.trans {x y z : Reg} (h1 : DataEq x y) (h2 : DataEq y z) : DataEq x z :=
  ⟨h1.adapters.trans h2.adapters, h1.subs.trans h2.subs, h1.provided.trans h2.provided, h1.extendors.trans h2.extendors⟩

theorem register_reg_ne (fuel : Nat) (w : World) (r : Nat) (req : List (Option Id)) (prov : Id) (name : String) (v : Val)
    {r' : Nat} (hr : r' ≠ r) : DataEq ((register fuel w r req prov name v).reg r') (w.reg r') := by
  rw [register_eq]
  split
  · exact DataEq.refl _
  · exact mut_data_ne fuel w r _ hr

theorem subscribe_reg_ne (fuel : Nat) (w : World) (r : Nat) (req : List (Option Id)) (prov : Option Id) (v : Val)
    {r' : Nat} (hr : r' ≠ r) : DataEq ((subscribe fuel w r req prov v).reg r') (w.reg r') := by
  rw [subscribe_eq]; exact mut_data_ne fuel w r _ hr

theorem replayRegs_reg_ne (fuel : Nat) (r : Nat) {r' : Nat} (hr : r' ≠ r) :
    ∀ (L : List (List K × K × String × Val)) (w : World), DataEq ((replayRegs fuel r L w).reg r') (w.reg r')
  | [], _ => DataEq.refl _
  | e :: L, w => (replayRegs_reg_ne fuel r hr L _).trans (register_reg_ne fuel w r e.1 _ e.2.2.1 e.2.2.2 hr)

theorem replaySubs_reg_ne (fuel : Nat) (r : Nat) {r' : Nat} (hr : r' ≠ r) :
    ∀ (L : List (List K × K × Val)) (w : World), DataEq ((replaySubs fuel r L w).reg r') (w.reg r')
  | [], _ => DataEq.refl _
  | e :: L, w => (replaySubs_reg_ne fuel r hr L _).trans (subscribe_reg_ne fuel w r e.1 e.2.1 e.2.2 hr)

/-- `rebuild()` of one registry leaves the registration data of every other registry alone -/
theorem rebuild_reg_ne (fuel : Nat) (w : World) (r : Nat) {r' : Nat} (hr : r' ≠ r) :
    DataEq ((rebuild fuel w r).reg r') (w.reg r') := by
  rw [rebuild_eq9]
  refine (replaySubs_reg_ne fuel r hr _ _).trans ((replayRegs_reg_ne fuel r hr _ _).trans ?_)
  have := (setBases_sameData fuel (w.setReg r (resetReg (w.reg r))) r (w.reg r).bases).at r'
  rw [reg_setReg_ne _ hr] at this
  exact this

theorem registered_replaySubs (fuel : Nat) (r : Nat) (r' : Nat) (req : List (Option Id)) (prov : Id) (name : String) :
    ∀ (L : List (List K × K × Val)) (w : World),
      registered (replaySubs fuel r L w) r' req prov name = registered w r' req prov name
  | [], _ => rfl
  | e :: L, w => (registered_replaySubs fuel r r' req prov name L _).trans (registered_subscribe fuel w r e.1 e.2.1 e.2.2 r' req prov name)

theorem subsFind_replayRegs (fuel : Nat) (r : Nat) (r' : Nat) (req : List (Option Id)) (prov : Option Id) :
    ∀ (L : List (List K × K × String × Val)) (w : World),
      subsFind (replayRegs fuel r L w) r' req prov = subsFind w r' req prov
  | [], _ => rfl
  | e :: L, w => (subsFind_replayRegs fuel r r' req prov L _).trans (subsFind_register fuel w r e.1 _ e.2.2.1 e.2.2.2 r' req prov)

theorem map_convNone_idem (req : List (Option Id)) : (req.map convNone).map convNone = req.map convNone := by
  rw [List.map_map]
  apply List.map_congr_left
  intro k _
  rfl

/-- **C09_rebuild (registrations)**: `rebuild()` — re-`__init__`, then replay `allRegistrations()` and
`allSubscriptions()` — leaves what `registered()` answers unchanged, for every registry and every key.

Hypotheses: the containers of the rebuilt registry are well-formed (`RegWF`, `RegKeys`; true after every history,
`C09_provided_le`).  They are needed: with a duplicated key in a dict the enumeration yields a shadowed binding that
`registered` never returned, and the replay re-registers it last; with a `None` key in a required position (which
`register` never writes) the replay files the binding under `Interface` instead, where `registered` can now see it. -/
theorem C09_rebuild_registered (fuel : Nat) (w : World) (r : Nat) (hwf : RegWF (w.reg r)) (hkeys : RegKeys (w.reg r))
    (r' : Nat) (req : List (Option Id)) (prov : Id)
    (name : String) : registered (rebuild fuel w r) r' req prov name = registered w r' req prov name := by
  by_cases hr : r' = r
  · subst hr
    rw [rebuild_eq9, registered_replaySubs]
    have ok := regsOk_allRegistrations (w.reg r') hwf hkeys
    have h2 : ReplayInv (fun _ => True) (allRegistrations (w.reg r')) r'
        (setBases fuel (w.setReg r' (resetReg (w.reg r'))) r' (w.reg r').bases) :=
      ⟨trivial, fun req prov name v' h => by rw [registered_reset] at h; cases h⟩
    obtain ⟨t1, t2, _⟩ := replay_regs (fun _ => True) fuel r' (fun _ _ _ _ _ _ _ => trivial) _ ok _ _ (fun _ h => h) h2
    cases hreg : registered w r' req prov name with
    | some v =>
      have hm := (allRegistrations_registered w r' hwf req prov name v).mpr hreg
      have := t2 _ hm
      simp only [Option.getD_some] at this
      rw [← registered_congr _ r' req (req.map convNone) prov name (map_convNone_idem req)]
      exact this
    | none =>
      cases hreg' : registered (replayRegs fuel r' (allRegistrations (w.reg r'))
          (setBases fuel (w.setReg r' (resetReg (w.reg r'))) r' (w.reg r').bases)) r' req prov name with
      | none => rfl
      | some v' =>
        have := (allRegistrations_registered w r' hwf req prov name v').mp (t1.sound req prov name v' hreg')
        rw [hreg] at this; cases this
  · exact registered_of_dataEq (rebuild_reg_ne fuel w r hr).adapters req prov name

theorem subsLeaf_replaySubs (fuel : Nat) (r : Nat) (req : List (Option Id)) (prov : Option Id) :
    ∀ (L : List (List K × K × Val)) (w : World),
      subsLeaf (replaySubs fuel r L w) r req prov =
        subsLeaf w r req prov ++
          (L.filter (fun e => decide (req.map convNone = e.1.map convNone ∧ prov = e.2.1))).map (·.2.2) := by
  intro L
  induction L with
  | nil => intro w; simp [replaySubs]
  | cons e L ih =>
    intro w
    show subsLeaf (replaySubs fuel r L (subscribe fuel w r e.1 e.2.1 e.2.2)) r req prov = _
    rw [ih, subsLeaf_subscribe, List.filter_cons]
    by_cases hk : req.map convNone = e.1.map convNone ∧ prov = e.2.1
    · rw [if_pos ⟨rfl, hk⟩, if_pos (by simpa using hk)]
      have hcongr : subsLeaf w r e.1 e.2.1 = subsLeaf w r req prov := by
        unfold subsLeaf; rw [hk.2, subsFind_congr w r e.1 req e.2.1 hk.1]
      rw [hcongr]
      simp
    · rw [if_neg (fun h => hk h.2), if_neg (by simpa using hk)]

theorem mem_allSubscriptions_conv (x : Reg) (hwf : RegWF x) (hkeys : RegKeys x) (e : List K × K × Val)
    (he : e ∈ allSubscriptions x) :
    e.1.map convNone = e.1 := by
  obtain ⟨reqK, provK, v⟩ := e
  rw [allSubscriptions_eq,
    mem_enumAll_iff (fun _ => True) _ (orders_sort_nodup _ hwf.sorders) (fun b hb => hwf.strees b ((mem_sort_iff _ b).mp hb)),
    pathFind_sort _ _ hwf.sorders] at he
  cases hpf : pathFind ([] : List Val) x.subs reqK.length (reqK ++ [provK]) with
  | none => rw [hpf] at he; simp at he
  | some vs =>
    have hk := pathKeys_of_pathFind QReq _ _ hkeys.skeys _ _ _ hpf
    exact map_convNone_of_pathKeys QReq (fun _ _ hd hq => hq hd) reqK provK hk

/-- **C09_rebuild (subscriptions)**: … and every subscription leaf is the same list afterwards — same subscribers, same
order, same multiplicities -/
theorem C09_rebuild_subsLeaf (fuel : Nat) (w : World) (r : Nat) (hwf : RegWF (w.reg r)) (hkeys : RegKeys (w.reg r))
    (r' : Nat) (req : List (Option Id)) (prov : Option Id) : subsLeaf (rebuild fuel w r) r' req prov = subsLeaf w r' req prov := by
  by_cases hr : r' = r
  · subst hr
    rw [rebuild_eq9, subsLeaf_replaySubs]
    have h0 : subsLeaf (replayRegs fuel r' (allRegistrations (w.reg r'))
        (setBases fuel (w.setReg r' (resetReg (w.reg r'))) r' (w.reg r').bases)) r' req prov = [] := by
      unfold subsLeaf
      rw [subsFind_replayRegs]
      unfold subsFind
      rw [(setBases_sameData fuel _ r' _).subs r', reg_setReg_same, pathFind_of_not_mem _ _ _ _ (by simp [resetReg, orders])]
      rfl
    rw [h0, List.nil_append, subsLeaf_eq_K, ← allSubscriptions_leaf (w.reg r') hwf]
    congr 1
    apply List.filter_congr
    intro e he
    have hc := mem_allSubscriptions_conv (w.reg r') hwf hkeys e he
    rw [hc]
    unfold keyIs
    rw [Bool.eq_iff_iff]
    simp only [decide_eq_true_eq, Bool.and_eq_true, beq_iff_eq]
    constructor
    · rintro ⟨h1, h2⟩; exact ⟨h1.symm, h2.symm⟩
    · rintro ⟨h1, h2⟩; exact ⟨h1.symm, h2.symm⟩
  · unfold subsLeaf
    rw [subsFind_of_dataEq (rebuild_reg_ne fuel w r hr).subs req prov]

theorem registerGuard_of_none {w : World} {r : Nat} {req : List (Option Id)} {prov : Id} {name : String} (v : Val)
    (h : registered w r req prov name = none) : RegisterGuard w r req prov name v := by
  intro old hold; rw [h] at hold; cases hold

theorem registerGuard_of_same {w : World} {r : Nat} {req : List (Option Id)} {prov : Id} {name : String} {v : Val}
    (h : registered w r req prov name = some v) : RegisterGuard w r req prov name v := by
  intro old hold; rw [h] at hold; cases hold; rfl

/-! ## non-vacuity: a concrete history -/
def c09W : World := emptyPush (fun i => [i, 0]) (fun i => [i, 0])

/-- two arities (0 and 1); under the required spec 1 two provided specs (2 and 3) are siblings; a re-registration of the
same object (no-op); a removal that empties — and prunes — the container of `(1, 2)` while its sibling `(1, 3)` stays -/
def c09Ops : List Op :=
  [.newreg 0 [],
   .register 0 [some 1] 2 "a" ⟨7, 1⟩,
   .register 0 [some 1] 3 "b" ⟨8, 2⟩,
   .register 0 [] 2 "" ⟨9, 3⟩,
   .subscribe 0 [none] (some 2) ⟨10, 4⟩,
   .subscribe 0 [none] (some 2) ⟨10, 4⟩,
   .subscribe 0 [some 1] none ⟨11, 5⟩,
   .register 0 [some 1] 2 "a" ⟨7, 1⟩,
   .unregister 0 [some 1] 2 "a" none,
   .unsubscribe 0 [some 1] none (some ⟨12, 5⟩),
   .rebuild 0]

theorem c09_guard : CGuardHist 4 c09W c09Ops := by
  refine ⟨trivial, ?_, ?_, ?_, trivial, trivial, trivial, ?_, trivial, trivial, trivial, trivial⟩
  · exact registerGuard_of_none _ (by decide +kernel)
  · exact registerGuard_of_none _ (by decide +kernel)
  · exact registerGuard_of_none _ (by decide +kernel)
  · exact registerGuard_of_same (by decide +kernel)

/-- the state before the final `rebuild`, evaluated: the container of `(1, 2)` is gone, its sibling `(1, 3)` is there, the
arity-0 registration is there; the subscription under `(Interface, 2)` is there twice, the one under `(1, None)` was removed
by an *equal* (not identical) subscriber; the counts are `2 ↦ 3` (one registration, two subscriptions), `3 ↦ 1` -/
example :
    let x := (run 4 c09W (c09Ops.take 10)).reg 0
    Level.entries 2 (getOrder ([] : Names) x.adapters 1) = [([some 1, some 3], [("b", ⟨8, 2⟩)])] ∧
    allRegistrationsU x = [([some 1], some 3, "b", ⟨8, 2⟩), ([], some 2, "", ⟨9, 3⟩)] ∧
    allSubscriptionsU x = [([some 0], some 2, ⟨10, 4⟩), ([some 0], some 2, ⟨10, 4⟩)] ∧
    x.provided = [(2, 3), (3, 1)] ∧ provCount x 2 = 3 ∧ provCount x 3 = 1 := by decide +kernel

/-- the hypotheses of the theorems hold for it -/
example : WInv (run 4 c09W (c09Ops.take 10)) :=
  run_winv 4 _ _ (winv_empty _ _) (by
    refine ⟨trivial, ?_, ?_, ?_, trivial, trivial, trivial, ?_, trivial, trivial, trivial⟩
    · exact registerGuard_of_none _ (by decide +kernel)
    · exact registerGuard_of_none _ (by decide +kernel)
    · exact registerGuard_of_none _ (by decide +kernel)
    · exact registerGuard_of_same (by decide +kernel))

example : ∀ p, (AList.get? ((run 4 c09W c09Ops).reg 0).provided p).getD 0 = provCount ((run 4 c09W c09Ops).reg 0) p :=
  (C09_provided 4 _ _ c09Ops c09_guard 0).1

/-- **why `RegisterGuard` is needed**: registering a second object under an occupied key leaves ONE registration but
counts TWO (`BaseAdapterRegistry.register`: `components[name] = value; n = self._provided.get(provided, 0) + 1`) -/
theorem provided_leak :
    let x := (run 2 c09W [.register 0 [] 2 "" ⟨1, 1⟩, .register 0 [] 2 "" ⟨2, 2⟩]).reg 0
    (AList.get? x.provided 2).getD 0 = 2 ∧ provCount x 2 = 1 ∧ allRegistrationsU x = [([], some 2, "", ⟨2, 2⟩)] := by
  decide +kernel

/-! ## 4d. histories without the guard: the count is an upper bound, the containers stay well-formed -/
/-- what holds of a registry after ANY history: well-formed containers, and `_provided` never under-counts -/
structure RegLe (x : Reg) : Prop where
  wf : RegWF x
  keys : RegKeys x
  count_le : ∀ p, provCount x p ≤ (AList.get? x.provided p).getD 0
  nozero : ∀ q ∈ x.provided, q.2 ≠ 0

theorem RegInv.le {x : Reg} (h : RegInv x) : RegLe x := ⟨h.wf, h.keys, fun p => Nat.le_of_eq (h.count p).symm, h.nozero⟩

theorem RegLe.of_dataEq {x y : Reg} (h : DataEq x y) (hy : RegLe y) : RegLe x := by
  refine ⟨RegWF.of_dataEq h hy.wf, RegKeys.of_dataEq h hy.keys, ?_, ?_⟩
  · intro p
    have := hy.count_le p
    unfold provCount at this ⊢
    rw [h.adapters, h.subs, h.provided]; exact this
  · rw [h.provided]; exact hy.nozero

theorem registerReg_le (w : World) (x : Reg) (req : List (Option Id)) (prov : Id) (name : String) (v : Val) (h : RegLe x) :
    RegLe (registerReg w x req prov name v) := by
  refine ⟨registerReg_wf w x req prov name v h.wf, registerReg_keys w x req prov name v h.keys, ?_, ?_⟩
  · intro p
    have := h.count_le p
    rw [provCount_registerReg w x req prov name v h.wf p, registerReg_provided, aget_set]
    by_cases hp : prov = p
    · subst hp
      simp only [if_true, true_and, Option.getD_some]
      split <;> omega
    · simp only [hp, if_false, false_and]; omega
  · rw [registerReg_provided]
    intro q hq
    rcases mem_set _ _ _ _ hq with hq | hq
    · exact h.nozero q hq
    · rw [hq]; simp

theorem unregisterReg_le (w : World) (x : Reg) (req : List (Option Id)) (prov : Id) (name : String) (h : RegLe x)
    (old : Val) (hreg : registeredK x (req.map convNone) (some prov) name = some old) :
    RegLe (unregisterReg w x req prov name) := by
  have hc := fun p => provCount_unregisterReg w x req prov name h.wf old hreg p
  refine ⟨unregisterReg_wf w x req prov name h.wf, unregisterReg_keys w x req prov name h.keys, ?_, ?_⟩
  · intro p
    rw [unregisterReg_provided]
    have hcp := hc p
    have hcount := h.count_le p
    by_cases hp : prov = p
    · subst hp
      simp only [if_true] at hcp
      split
      · rename_i hz; rw [aget_erase, if_pos rfl]; simp only [Option.getD_none]; omega
      · rename_i hz; rw [aget_set, if_pos rfl]; simp only [Option.getD_some]; omega
    · simp only [hp, if_false] at hcp
      split
      · rw [aget_erase, if_neg hp]; omega
      · rw [aget_set, if_neg hp]; omega
  · rw [unregisterReg_provided]
    intro q hq
    split at hq
    · exact h.nozero q (mem_erase _ _ _ hq).1
    · rename_i hz
      rcases mem_set _ _ _ _ hq with hq | hq
      · exact h.nozero q hq
      · rw [hq]; exact hz

theorem subscribeReg_le (w : World) (x : Reg) (req : List (Option Id)) (prov : Option Id) (v : Val) (h : RegLe x) :
    RegLe (subscribeReg w x req prov v) := by
  refine ⟨subscribeReg_wf w x req prov v h.wf, subscribeReg_keys w x req prov v h.keys, ?_, ?_⟩
  · intro p
    have := h.count_le p
    rw [provCount_subscribeReg w x req prov v h.wf p, subscribeReg_provided]
    cases prov with
    | none => simp only [reduceCtorEq, if_false]; omega
    | some q =>
      simp only [aget_set, Option.some.injEq]
      by_cases hq : q = p
      · subst hq; simp only [if_true, Option.getD_some]; omega
      · simp only [hq, if_false]; omega
  · rw [subscribeReg_provided]
    intro q hq
    cases prov with
    | none => exact h.nozero q hq
    | some q' =>
      simp only at hq
      rcases mem_set _ _ _ _ hq with hq | hq
      · exact h.nozero q hq
      · rw [hq]; simp

theorem unsubscribeReg_le (w : World) (x : Reg) (req : List (Option Id)) (prov : Option Id) (old new : List Val) (h : RegLe x)
    (hf : pathFind ([] : List Val) x.subs req.length (regPath req prov) = some old) :
    RegLe (unsubscribeReg w x req prov old new) := by
  have hc := fun p => provCount_unsubscribeReg w x req prov old new h.wf hf p
  refine ⟨unsubscribeReg_wf w x req prov old new h.wf, unsubscribeReg_keys w x req prov old new h.keys, ?_, ?_⟩
  · intro p
    rw [unsubscribeReg_provided]
    obtain ⟨hcp, hle⟩ := hc p
    have hcount := h.count_le p
    cases prov with
    | none => simp only [reduceCtorEq, if_false] at hcp ⊢; omega
    | some q =>
      simp only [Option.some.injEq] at hcp hle ⊢
      by_cases hq : q = p
      · subst hq
        simp only [if_true] at hcp hle
        split
        · rename_i hz; rw [aget_erase, if_pos rfl]; simp only [Option.getD_none]; omega
        · rename_i hz; rw [aget_set, if_pos rfl]; simp only [Option.getD_some]; omega
      · simp only [hq, if_false] at hcp
        split
        · rw [aget_erase, if_neg hq]; omega
        · rw [aget_set, if_neg hq]; omega
  · rw [unsubscribeReg_provided]
    intro q hq
    cases prov with
    | none => exact h.nozero q hq
    | some q' =>
      simp only at hq
      split at hq
      · exact h.nozero q (mem_erase _ _ _ hq).1
      · rename_i hz
        rcases mem_set _ _ _ _ hq with hq | hq
        · exact h.nozero q hq
        · rw [hq]; exact hz

def WLe (w : World) : Prop := ∀ r, RegLe (w.reg r)

theorem WInv.le {w : World} (h : WInv w) : WLe w := fun r => (h r).le

theorem wle_of_sameData {w w' : World} (h : SameData w w') (hi : WLe w) : WLe w' :=
  fun r => RegLe.of_dataEq (h.at r) (hi r)

theorem wle_mut (fuel : Nat) (w : World) (r : Nat) (X : Reg) (hi : WLe w) (hX : RegLe X) :
    WLe (changed fuel (w.setReg r X) r) := by
  intro r'
  by_cases hr : r' = r
  · subst hr; exact RegLe.of_dataEq (mut_data_same fuel w r' X) hX
  · exact RegLe.of_dataEq (mut_data_ne fuel w r X hr) (hi r')

theorem wle_setReg (w : World) (r : Nat) (X : Reg) (hi : WLe w) (hX : RegLe X) : WLe (w.setReg r X) := by
  intro r'
  by_cases hr : r' = r
  · subst hr; rw [reg_setReg_same]; exact hX
  · rw [reg_setReg_ne _ hr]; exact hi r'

theorem register_wle (fuel : Nat) (w : World) (r : Nat) (req : List (Option Id)) (prov : Id) (name : String) (v : Val)
    (hi : WLe w) : WLe (register fuel w r req prov name v) := by
  rw [register_eq]
  split
  · exact hi
  · exact wle_mut fuel w r _ hi (registerReg_le w (w.reg r) req prov name v (hi r))

theorem unregister_wle (fuel : Nat) (w : World) (r : Nat) (req : List (Option Id)) (prov : Id) (name : String) (v : Option Val)
    (hi : WLe w) : WLe (unregister fuel w r req prov name v) := by
  rw [unregister_eq]
  split
  · exact hi
  · split
    · exact hi
    · rename_i old hold
      split
      · exact hi
      · apply wle_mut fuel w r _ hi
        rw [registered_eq_K] at hold
        exact unregisterReg_le w (w.reg r) req prov name (hi r) old hold

theorem subscribe_wle (fuel : Nat) (w : World) (r : Nat) (req : List (Option Id)) (prov : Option Id) (v : Val)
    (hi : WLe w) : WLe (subscribe fuel w r req prov v) := by
  rw [subscribe_eq]
  exact wle_mut fuel w r _ hi (subscribeReg_le w (w.reg r) req prov v (hi r))

theorem unsubscribe_wle (fuel : Nat) (w : World) (r : Nat) (req : List (Option Id)) (prov : Option Id) (v : Option Val)
    (hi : WLe w) : WLe (unsubscribe fuel w r req prov v) := by
  rw [unsubscribe_eq]
  split
  · exact hi
  · split
    · exact hi
    · rename_i old hold
      split
      · exact hi
      · split
        · exact hi
        · exact wle_mut fuel w r _ hi (unsubscribeReg_le w (w.reg r) req prov old _ (hi r) hold)

theorem replayRegs_wle (fuel : Nat) (r : Nat) : ∀ (L : List (List K × K × String × Val)) (w : World), WLe w → WLe (replayRegs fuel r L w)
  | [], _, h => h
  | e :: L, w, h => replayRegs_wle fuel r L _ (register_wle fuel w r e.1 _ e.2.2.1 e.2.2.2 h)

theorem replaySubs_wle (fuel : Nat) (r : Nat) : ∀ (L : List (List K × K × Val)) (w : World), WLe w → WLe (replaySubs fuel r L w)
  | [], _, h => h
  | e :: L, w, h => replaySubs_wle fuel r L _ (subscribe_wle fuel w r e.1 e.2.1 e.2.2 h)

theorem rebuild_wle (fuel : Nat) (w : World) (r : Nat) (hi : WLe w) : WLe (rebuild fuel w r) := by
  rw [rebuild_eq9]
  apply replaySubs_wle
  apply replayRegs_wle
  exact wle_of_sameData (setBases_sameData fuel _ r _)
    (wle_setReg w r _ hi (RegLe.of_dataEq (resetReg_dataEq _) regInv_empty.le))

theorem step_wle (fuel : Nat) (w : World) (hi : WLe w) (op : Op) : WLe (step fuel w op) := by
  cases op with
  | newreg r bs => exact wle_of_sameData (setBases_sameData fuel _ r bs) (wle_setReg w r {} hi regInv_empty.le)
  | setBases r bs => exact wle_of_sameData (setBases_sameData fuel w r bs) hi
  | rebuild r => exact rebuild_wle fuel w r hi
  | register r req p n v => exact register_wle fuel w r req p n v hi
  | unregister r req p n v => exact unregister_wle fuel w r req p n v hi
  | subscribe r req p v => exact subscribe_wle fuel w r req p v hi
  | unsubscribe r req p v => exact unsubscribe_wle fuel w r req p v hi
  | lookup r req p n => exact wle_of_sameData (lookup_sameData w r req p n) hi
  | lookupAll r req p => exact wle_of_sameData (lookupAll_sameData w r req p) hi
  | subscriptions r req p => exact wle_of_sameData (subscriptions_sameData w r req p) hi

theorem run_wle (fuel : Nat) : ∀ (ops : List Op) (w : World), WLe w → WLe (run fuel w ops)
  | [], _, h => h
  | op :: ops, w, h => run_wle fuel ops (step fuel w op) (step_wle fuel w h op)

/-- **C09, all histories** (no guard at all): the containers of every registry stay well-formed — one container per arity,
unique keys in every dict, unique names in every `{name: value}` leaf, spec keys only — and `_provided` never
under-counts: `_provided.get(p, 0)` is at least the number of registrations and subscriptions providing `p`, and no
stored count is `0`.  (With `RegisterGuard` the bound is an equality: `C09_provided`.) -/
theorem C09_provided_le (fuel : Nat) (sro iro : Id → List Id) (ops : List Op) (r : Nat) :
    RegLe ((run fuel (emptyPush sro iro) ops).reg r) :=
  run_wle fuel ops _ (winv_empty sro iro).le r

/-! ## 7. emptied containers are pruned: no empty dict (below the per-arity root) and no empty leaf is ever left behind -/
section NE
variable {α : Type}

/-- a leaf is non-empty in the sense `ne`; a dict has at least one key -/
def Level.nonEmpty (ne : α → Prop) : (n : Nat) → Level α n → Prop
  | 0, l => ne (leafOf l)
  | _+1, m => kidsOf m ≠ []

/-- everything stored *inside* the container is non-empty (the container itself — the per-arity root — may be empty) -/
def LNE (ne : α → Prop) : (n : Nat) → Level α n → Prop
  | 0, _ => True
  | n+1, m => ∀ c ∈ kidsOf m, Level.nonEmpty ne n c.2 ∧ LNE ne n c.2

theorem lne_succ (ne : α → Prop) (n : Nat) (m : Level α (n+1)) :
    LNE ne (n+1) m ↔ ∀ c ∈ kidsOf m, Level.nonEmpty ne n c.2 ∧ LNE ne n c.2 := Iff.rfl

theorem lne_empty (ne : α → Prop) (e : α) : ∀ n, LNE ne n (Level.empty e n)
  | 0 => trivial
  | n+1 => by rw [lne_succ]; intro c hc; cases hc

theorem set_ne_nil {κ β : Type} [BEq κ] (m : AList κ β) (k : κ) (v : β) : AList.set m k v ≠ [] := by
  unfold AList.set
  split
  · rename_i h
    intro e
    have : m = [] := by simpa using e
    rw [this] at h; simp at h
  · simp

theorem nonEmpty_update (ne : α → Prop) (e : α) (f : α → α) (hf : ∀ a, ne (f a)) :
    ∀ (n : Nat) (t : Level α n) (path : List K), path.length = n → Level.nonEmpty ne n (Level.update e f n t path) := by
  intro n t path hl
  cases n with
  | zero => exact hf _
  | succ n =>
    cases path with
    | nil => simp at hl
    | cons k ks => rw [update_cons]; exact set_ne_nil _ _ _

theorem lne_update (ne : α → Prop) (e : α) (f : α → α) (hf : ∀ a, ne (f a)) :
    ∀ (n : Nat) (t : Level α n) (path : List K), path.length = n → LNE ne n t → LNE ne n (Level.update e f n t path) := by
  intro n
  induction n with
  | zero => intro t path _ _; trivial
  | succ n ih =>
    intro t path hl h
    cases path with
    | nil => simp at hl
    | cons k ks =>
      have hks : ks.length = n := by simpa using hl
      rw [lne_succ] at h
      rw [update_cons, lne_succ, kidsOf_mkNode']
      intro c hc
      rcases mem_set _ _ _ _ hc with hc | hc
      · exact h c hc
      · rw [hc]
        refine ⟨nonEmpty_update ne e f hf n _ ks hks, ih _ ks hks ?_⟩
        cases hg : AList.get? (kidsOf t) k with
        | none => exact lne_empty ne e n
        | some ch => exact (h (k, ch) (aget_some_mem _ _ _ hg)).2

/-- a container not reported emptied by `remove` is not empty -/
theorem nonEmpty_remove (ne : α → Prop) (isEmpty : α → Bool) (f : α → α) (hne : ∀ a, isEmpty (f a) = false → ne (f a)) :
    ∀ (n : Nat) (t : Level α n) (path : List K), Level.nonEmpty ne n t →
      (Level.remove isEmpty f n t path).2 = false → Level.nonEmpty ne n (Level.remove isEmpty f n t path).1 := by
  intro n t path h0 hflag
  cases n with
  | zero => exact hne _ hflag
  | succ n =>
    cases path with
    | nil => exact h0
    | cons k ks =>
      cases hg : AList.get? (kidsOf t) k with
      | none => rw [remove_step_none _ _ _ _ _ _ hg]; exact h0
      | some child =>
        rw [remove_step_some _ _ _ _ _ _ child hg] at hflag ⊢
        simp only [Level.nonEmpty, kidsOf_mkNode']
        simp only at hflag
        by_cases hr : (Level.remove isEmpty f n child ks).2 = true
        · rw [if_pos hr] at hflag ⊢
          simp only [hr, Bool.true_and] at hflag
          intro e; rw [e] at hflag; simp at hflag
        · rw [if_neg hr]; exact set_ne_nil _ _ _

theorem lne_remove (ne : α → Prop) (isEmpty : α → Bool) (f : α → α) (hne : ∀ a, isEmpty (f a) = false → ne (f a)) :
    ∀ (n : Nat) (t : Level α n) (path : List K), LNE ne n t → LNE ne n (Level.remove isEmpty f n t path).1 := by
  intro n
  induction n with
  | zero => intro t path _; trivial
  | succ n ih =>
    intro t path h
    cases path with
    | nil => exact h
    | cons k ks =>
      cases hg : AList.get? (kidsOf t) k with
      | none => rw [remove_step_none _ _ _ _ _ _ hg]; exact h
      | some child =>
        rw [remove_step_some _ _ _ _ _ _ child hg]
        rw [lne_succ] at h
        rw [lne_succ, kidsOf_mkNode']
        have hch := h (k, child) (aget_some_mem _ _ _ hg)
        by_cases hr : (Level.remove isEmpty f n child ks).2 = true
        · rw [if_pos hr]; exact fun c hc => h c (mem_erase _ _ _ hc).1
        · rw [if_neg hr]
          intro c hc
          rcases mem_set _ _ _ _ hc with hc | hc
          · exact h c hc
          · rw [hc]
            exact ⟨nonEmpty_remove ne isEmpty f hne n child ks hch.1 (by simpa using hr), ih child ks hch.2⟩

/-- every leaf that can be found is non-empty -/
theorem lne_find (ne : α → Prop) : ∀ (n : Nat) (t : Level α (n+1)) (path : List K) (a : α), LNE ne (n+1) t →
    Level.find (n+1) t path = some a → ne a := by
  intro n
  induction n with
  | zero =>
    intro t path a h hf
    cases path with
    | nil => simp [Level.find] at hf
    | cons k ks =>
      rw [find_cons] at hf
      cases hg : AList.get? (kidsOf t) k with
      | none => rw [hg] at hf; simp at hf
      | some c =>
        rw [hg] at hf
        simp only [Option.bind_some] at hf
        have := (h (k, c) (aget_some_mem _ _ _ hg)).1
        cases ks with
        | nil => simp only [Level.find, Option.some.injEq] at hf; rw [← hf]; exact this
        | cons _ _ => simp [Level.find] at hf
  | succ n ih =>
    intro t path a h hf
    cases path with
    | nil => simp [Level.find] at hf
    | cons k ks =>
      rw [find_cons] at hf
      cases hg : AList.get? (kidsOf t) k with
      | none => rw [hg] at hf; simp at hf
      | some c =>
        rw [hg] at hf
        exact ih c ks a (h (k, c) (aget_some_mem _ _ _ hg)).2 hf

theorem lne_getOrder (ne : α → Prop) (e : α) (l : List (ByOrder α)) (hk : ∀ b ∈ l, LNE ne (b.order+1) b.tree)
    (n : Nat) : LNE ne (n+1) (getOrder e l n) :=
  getOrder_prop e l (fun n t => LNE ne (n+1) t) hk (fun n => lne_empty ne e (n+1)) n

end NE

/-- no empty `{name: value}` dict, no empty subscriber tuple and no empty intermediate dict is stored in a registry -/
structure RegNE (x : Reg) : Prop where
  ane : ∀ b ∈ x.adapters, LNE (fun names : Names => names ≠ []) (b.order+1) b.tree
  sne : ∀ b ∈ x.subs, LNE (fun vs : List Val => vs ≠ []) (b.order+1) b.tree

theorem regNE_empty : RegNE {} := ⟨fun _ h => (by cases h), fun _ h => (by cases h)⟩

theorem RegNE.of_dataEq {x y : Reg} (h : DataEq x y) (hy : RegNE y) : RegNE x := by
  obtain ⟨h1, h2, _, _⟩ := h
  exact ⟨h1 ▸ hy.ane, h2 ▸ hy.sne⟩

theorem registerReg_ne (w : World) (x : Reg) (req : List (Option Id)) (prov : Id) (name : String) (v : Val) (h : RegNE x) :
    RegNE (registerReg w x req prov name v) := by
  refine ⟨?_, ?_⟩
  · rw [registerReg_adapters]
    apply setOrder_prop x.adapters (fun n t => LNE (fun names : Names => names ≠ []) (n+1) t) h.ane
    exact lne_update _ [] _ (fun a => set_ne_nil a name v) _ _ _ (regPath_length req _) (lne_getOrder _ [] _ h.ane _)
  · rw [registerReg_subs]; exact h.sne

theorem unregisterReg_ne (w : World) (x : Reg) (req : List (Option Id)) (prov : Id) (name : String) (h : RegNE x) :
    RegNE (unregisterReg w x req prov name) := by
  refine ⟨?_, ?_⟩
  · rw [unregisterReg_adapters]
    apply setOrder_prop x.adapters (fun n t => LNE (fun names : Names => names ≠ []) (n+1) t) h.ane
    exact lne_remove _ _ _ (fun a ha => by intro e; rw [e] at ha; simp at ha) _ _ _ (lne_getOrder _ [] _ h.ane _)
  · rw [unregisterReg_subs]; exact h.sne

theorem subscribeReg_ne (w : World) (x : Reg) (req : List (Option Id)) (prov : Option Id) (v : Val) (h : RegNE x) :
    RegNE (subscribeReg w x req prov v) := by
  refine ⟨?_, ?_⟩
  · rw [subscribeReg_adapters]; exact h.ane
  · rw [subscribeReg_subs]
    apply setOrder_prop x.subs (fun n t => LNE (fun vs : List Val => vs ≠ []) (n+1) t) h.sne
    exact lne_update _ [] _ (fun a => by simp) _ _ _ (regPath_length req _) (lne_getOrder _ [] _ h.sne _)

theorem unsubscribeReg_ne (w : World) (x : Reg) (req : List (Option Id)) (prov : Option Id) (old new : List Val) (h : RegNE x) :
    RegNE (unsubscribeReg w x req prov old new) := by
  refine ⟨?_, ?_⟩
  · rw [unsubscribeReg_adapters]; exact h.ane
  · rw [unsubscribeReg_subs]
    apply setOrder_prop x.subs (fun n t => LNE (fun vs : List Val => vs ≠ []) (n+1) t) h.sne
    exact lne_remove _ _ _ (fun _ ha => by intro e; rw [e] at ha; simp at ha) _ _ _ (lne_getOrder _ [] _ h.sne _)

def WNE (w : World) : Prop := ∀ r, RegNE (w.reg r)

theorem wne_of_sameData {w w' : World} (h : SameData w w') (hi : WNE w) : WNE w' :=
  fun r => RegNE.of_dataEq (h.at r) (hi r)

theorem wne_mut (fuel : Nat) (w : World) (r : Nat) (X : Reg) (hi : WNE w) (hX : RegNE X) :
    WNE (changed fuel (w.setReg r X) r) := by
  intro r'
  by_cases hr : r' = r
  · subst hr; exact RegNE.of_dataEq (mut_data_same fuel w r' X) hX
  · exact RegNE.of_dataEq (mut_data_ne fuel w r X hr) (hi r')

theorem wne_setReg (w : World) (r : Nat) (X : Reg) (hi : WNE w) (hX : RegNE X) : WNE (w.setReg r X) := by
  intro r'
  by_cases hr : r' = r
  · subst hr; rw [reg_setReg_same]; exact hX
  · rw [reg_setReg_ne _ hr]; exact hi r'

theorem register_wne (fuel : Nat) (w : World) (r : Nat) (req : List (Option Id)) (prov : Id) (name : String) (v : Val)
    (hi : WNE w) : WNE (register fuel w r req prov name v) := by
  rw [register_eq]
  split
  · exact hi
  · exact wne_mut fuel w r _ hi (registerReg_ne w (w.reg r) req prov name v (hi r))

theorem unregister_wne (fuel : Nat) (w : World) (r : Nat) (req : List (Option Id)) (prov : Id) (name : String) (v : Option Val)
    (hi : WNE w) : WNE (unregister fuel w r req prov name v) := by
  rw [unregister_eq]
  split
  · exact hi
  · split
    · exact hi
    · split
      · exact hi
      · exact wne_mut fuel w r _ hi (unregisterReg_ne w (w.reg r) req prov name (hi r))

theorem subscribe_wne (fuel : Nat) (w : World) (r : Nat) (req : List (Option Id)) (prov : Option Id) (v : Val)
    (hi : WNE w) : WNE (subscribe fuel w r req prov v) := by
  rw [subscribe_eq]
  exact wne_mut fuel w r _ hi (subscribeReg_ne w (w.reg r) req prov v (hi r))

theorem unsubscribe_wne (fuel : Nat) (w : World) (r : Nat) (req : List (Option Id)) (prov : Option Id) (v : Option Val)
    (hi : WNE w) : WNE (unsubscribe fuel w r req prov v) := by
  rw [unsubscribe_eq]
  split
  · exact hi
  · split
    · exact hi
    · split
      · exact hi
      · split
        · exact hi
        · exact wne_mut fuel w r _ hi (unsubscribeReg_ne w (w.reg r) req prov _ _ (hi r))

theorem replayRegs_wne (fuel : Nat) (r : Nat) : ∀ (L : List (List K × K × String × Val)) (w : World), WNE w → WNE (replayRegs fuel r L w)
  | [], _, h => h
  | e :: L, w, h => replayRegs_wne fuel r L _ (register_wne fuel w r e.1 _ e.2.2.1 e.2.2.2 h)

theorem replaySubs_wne (fuel : Nat) (r : Nat) : ∀ (L : List (List K × K × Val)) (w : World), WNE w → WNE (replaySubs fuel r L w)
  | [], _, h => h
  | e :: L, w, h => replaySubs_wne fuel r L _ (subscribe_wne fuel w r e.1 e.2.1 e.2.2 h)

theorem rebuild_wne (fuel : Nat) (w : World) (r : Nat) (hi : WNE w) : WNE (rebuild fuel w r) := by
  rw [rebuild_eq9]
  apply replaySubs_wne
  apply replayRegs_wne
  exact wne_of_sameData (setBases_sameData fuel _ r _)
    (wne_setReg w r _ hi (RegNE.of_dataEq (resetReg_dataEq _) regNE_empty))

theorem step_wne (fuel : Nat) (w : World) (hi : WNE w) (op : Op) : WNE (step fuel w op) := by
  cases op with
  | newreg r bs => exact wne_of_sameData (setBases_sameData fuel _ r bs) (wne_setReg w r {} hi regNE_empty)
  | setBases r bs => exact wne_of_sameData (setBases_sameData fuel w r bs) hi
  | rebuild r => exact rebuild_wne fuel w r hi
  | register r req p n v => exact register_wne fuel w r req p n v hi
  | unregister r req p n v => exact unregister_wne fuel w r req p n v hi
  | subscribe r req p v => exact subscribe_wne fuel w r req p v hi
  | unsubscribe r req p v => exact unsubscribe_wne fuel w r req p v hi
  | lookup r req p n => exact wne_of_sameData (lookup_sameData w r req p n) hi
  | lookupAll r req p => exact wne_of_sameData (lookupAll_sameData w r req p) hi
  | subscriptions r req p => exact wne_of_sameData (subscriptions_sameData w r req p) hi

theorem run_wne (fuel : Nat) : ∀ (ops : List Op) (w : World), WNE w → WNE (run fuel w ops)
  | [], _, h => h
  | op :: ops, w, h => run_wne fuel ops (step fuel w op) (step_wne fuel w h op)

/-- **C09, pruning** (all histories): nothing empty is ever left inside the containers — every `{name: value}` dict and
every subscriber tuple that can be reached is non-empty, and so is every intermediate dict -/
theorem C09_pruned (fuel : Nat) (sro iro : Id → List Id) (ops : List Op) (r : Nat) :
    RegNE ((run fuel (emptyPush sro iro) ops).reg r) :=
  run_wne fuel ops _ (show WNE (emptyPush sro iro) from fun _ => regNE_empty) r

/-- consequence: a subscription leaf that exists is non-empty, so `subsFind` is determined by `subsLeaf` -/
theorem subsFind_of_leaf (w : World) (h : WNE w) (r : Nat) (req : List (Option Id)) (prov : Option Id) :
    subsFind w r req prov = if subsLeaf w r req prov = [] then none else some (subsLeaf w r req prov) := by
  unfold subsLeaf
  cases hf : subsFind w r req prov with
  | none => simp
  | some vs =>
    have : vs ≠ [] := lne_find (fun vs : List Val => vs ≠ []) _ _ _ vs (lne_getOrder _ [] _ (h r).sne _) hf
    simp [this]

/-- … hence `rebuild()` reproduces even the container structure of the subscriptions -/
theorem C09_rebuild_subsFind (fuel : Nat) (w : World) (hne : WNE w) (r : Nat) (hwf : RegWF (w.reg r))
    (hkeys : RegKeys (w.reg r)) (r' : Nat)
    (req : List (Option Id)) (prov : Option Id) : subsFind (rebuild fuel w r) r' req prov = subsFind w r' req prov := by
  rw [subsFind_of_leaf _ (rebuild_wne fuel w r hne), subsFind_of_leaf w hne, C09_rebuild_subsLeaf fuel w r hwf hkeys]

/-! ### reachable worlds -/
/-- **C09_rebuild**: in every world reachable by ANY history from the empty world, `rebuild()` of any registry changes no
`registered()` answer, no subscription leaf (as a list: order and multiplicities included) and not even the container
structure under a subscription path -/
theorem C09_rebuild (fuel : Nat) (sro iro : Id → List Id) (ops : List Op) (r r' : Nat) (req : List (Option Id)) :
    (∀ prov name, registered (rebuild fuel (run fuel (emptyPush sro iro) ops) r) r' req prov name =
        registered (run fuel (emptyPush sro iro) ops) r' req prov name) ∧
    (∀ prov, subsLeaf (rebuild fuel (run fuel (emptyPush sro iro) ops) r) r' req prov =
        subsLeaf (run fuel (emptyPush sro iro) ops) r' req prov) ∧
    (∀ prov, subsFind (rebuild fuel (run fuel (emptyPush sro iro) ops) r) r' req prov =
        subsFind (run fuel (emptyPush sro iro) ops) r' req prov) :=
  let h := C09_provided_le fuel sro iro ops r
  ⟨fun prov name => C09_rebuild_registered fuel _ r h.wf h.keys r' req prov name,
   fun prov => C09_rebuild_subsLeaf fuel _ r h.wf h.keys r' req prov,
   fun prov => C09_rebuild_subsFind fuel _ (fun x => C09_pruned fuel sro iro ops x) r h.wf h.keys r' req prov⟩

/-- more non-vacuity: the well-formedness hypotheses of §5 / §6 hold of the concrete registry above -/
example : RegWF ((run 4 c09W (c09Ops.take 10)).reg 0) := (C09_provided_le 4 _ _ _ 0).wf
example : RegKeys ((run 4 c09W (c09Ops.take 10)).reg 0) := (C09_provided_le 4 _ _ _ 0).keys
example : WNE (run 4 c09W (c09Ops.take 10)) := fun r => C09_pruned 4 _ _ _ r

end ZI.Registry

#print axioms ZI.Registry.changed_sameData
#print axioms ZI.Registry.setBases_sameData
#print axioms ZI.Registry.getOrder_setOrder_same9
#print axioms ZI.Registry.getOrder_setOrder_ne9
#print axioms ZI.Registry.registered_register
#print axioms ZI.Registry.registered_unregister
#print axioms ZI.Registry.subsFind_subscribe
#print axioms ZI.Registry.subsLeaf_unsubscribe
#print axioms ZI.Registry.subsFind_unsubscribe_other
#print axioms ZI.Registry.qsort_perm
#print axioms ZI.Registry.mem_allRegistrations_iff
#print axioms ZI.Registry.allSubscriptions_leaf
#print axioms ZI.Registry.count_allSubscriptions
#print axioms ZI.Registry.C09_provided
#print axioms ZI.Registry.C09_provided_le
#print axioms ZI.Registry.C09_pruned
#print axioms ZI.Registry.provided_leak
#print axioms ZI.Registry.c09_guard
#print axioms ZI.Registry.C09_rebuild_registered
#print axioms ZI.Registry.C09_rebuild_subsLeaf
#print axioms ZI.Registry.C09_rebuild_subsFind
#print axioms ZI.Registry.C09_rebuild
