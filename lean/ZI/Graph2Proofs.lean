import ZI.Graph2
import ZI.EqC3c
namespace ZI.Graph2
open ZI.RO
open ZI.Prop (prop Down prop_spec)

theorem upd_eq_prop_upd (σ : Id → List Id) (s : Id) (v : List Id) : upd σ s v = ZI.Prop.upd σ s v := rfl

/-- `changed` only rewrites cached orders, and on them it is exactly the abstract propagation -/
theorem changed_spec (fuelRo : Nat) : ∀ (f : Nat) (g : G) (s : Id),
    (changed fuelRo f g s).bases = g.bases ∧ (changed fuelRo f g s).deps = g.deps ∧
    (changed fuelRo f g s).root = g.root ∧ (changed fuelRo f g s).ids = g.ids ∧
    (changed fuelRo f g s).sro = prop (depIds g) (Fstep g.bases g.root fuelRo) f g.sro s := by
  intro f
  induction f with
  | zero => intro g s; simp [changed, prop]
  | succ f ih =>
    intro g s
    -- the fold over the dependents, for any graph that agrees with `g` except on `sro`
    have hfold : ∀ (ds : List (Id × Nat)) (g1 : G), g1.bases = g.bases → g1.deps = g.deps → g1.root = g.root →
        g1.ids = g.ids →
        let r := ds.foldl (fun g d => changed fuelRo f g d.1) g1
        r.bases = g.bases ∧ r.deps = g.deps ∧ r.root = g.root ∧ r.ids = g.ids ∧
        r.sro = (ds.map (·.1)).foldl (fun σ d => prop (depIds g) (Fstep g.bases g.root fuelRo) f σ d) g1.sro := by
      intro ds
      induction ds with
      | nil => intro g1 h1 h2 h3 h4; exact ⟨h1, h2, h3, h4, rfl⟩
      | cons d ds ihd =>
        intro g1 h1 h2 h3 h4
        obtain ⟨e1, e2, e3, e4, e5⟩ := ih g1 d.1
        have hdep : depIds g1 = depIds g := by funext x; simp [depIds, h2]
        simp only [List.foldl_cons, List.map_cons]
        have := ihd (changed fuelRo f g1 d.1) (e1.trans h1) (e2.trans h2) (e3.trans h3) (e4.trans h4)
        rw [e5, hdep, h1, h3] at this
        exact this
    simp only [changed]
    have := hfold (g.deps s) { g with sro := upd g.sro s (Fstep g.bases g.root fuelRo g.sro s) } rfl rfl rfl rfl
    obtain ⟨a, b, c, d, e⟩ := this
    refine ⟨a, b, c, d, ?_⟩
    rw [e]
    simp only [prop, depIds]
    rfl

#print axioms changed_spec
end ZI.Graph2

namespace ZI.Graph2
open ZI.RO
open ZI.Prop (prop Down prop_spec)

def HasDep (g : G) (b d : Id) : Prop := d ∈ depIds g b
def AllOne (g : G) : Prop := ∀ x p, p ∈ g.deps x → p.2 = 1

theorem hasDep_subscribe (g : G) (b dep x d : Id) :
    HasDep (subscribe g b dep) x d ↔ HasDep g x d ∨ (x = b ∧ d = dep) := by
  unfold HasDep depIds subscribe
  by_cases hx : x = b
  · subst hx
    simp only [upd, if_true]
    split
    · rename_i hany
      simp only [List.map_map]
      have hm : (List.map ((fun x => x.1) ∘ fun p => if (p.1 == dep) = true then (dep, p.2 + 1) else p) (g.deps x))
          = List.map (fun x => x.1) (g.deps x) := by
        apply List.map_congr_left
        intro p _
        simp only [Function.comp]
        split
        · rename_i h; simpa using (by simpa using h : p.1 = dep).symm
        · rfl
      rw [hm]
      constructor
      · exact Or.inl
      · rintro (h | ⟨_, rfl⟩)
        · exact h
        · obtain ⟨p, hp, hpd⟩ := List.any_eq_true.mp hany
          exact List.mem_map.mpr ⟨p, hp, by simpa using hpd⟩
    · simp only [List.map_append, List.map_cons, List.map_nil, List.mem_append, List.mem_singleton]
      constructor
      · rintro (h | h)
        · exact Or.inl h
        · exact Or.inr ⟨trivial, h⟩
      · rintro (h | ⟨_, h⟩)
        · exact Or.inl h
        · exact Or.inr h
  · simp only [upd, hx, if_false]
    constructor
    · exact Or.inl
    · rintro (h | ⟨h, _⟩)
      · exact h
      · exact h.elim

theorem allOne_subscribe {g : G} {b dep : Id} (h1 : AllOne g) (hn : ¬ HasDep g b dep) : AllOne (subscribe g b dep) := by
  intro x p hp
  unfold subscribe at hp
  by_cases hx : x = b
  · subst hx
    simp only [upd, if_true] at hp
    have hany : (g.deps x).any (·.1 == dep) = false := by
      cases h : (g.deps x).any (·.1 == dep) with
      | false => rfl
      | true =>
        obtain ⟨q, hq, hqd⟩ := List.any_eq_true.mp h
        exact absurd (List.mem_map.mpr ⟨q, hq, by simpa using hqd⟩) hn
    simp only [hany, Bool.false_eq_true, if_false, List.mem_append, List.mem_singleton] at hp
    rcases hp with hp | rfl
    · exact h1 x p hp
    · rfl
  · simp only [upd, hx, if_false] at hp
    exact h1 x p hp

theorem hasDep_unsubscribe {g : G} (h1 : AllOne g) (b dep x d : Id) :
    HasDep (unsubscribe g b dep) x d ↔ HasDep g x d ∧ ¬ (x = b ∧ d = dep) := by
  unfold HasDep depIds unsubscribe
  by_cases hx : x = b
  · subst hx
    simp only [upd, if_true, List.mem_map, List.mem_filterMap]
    constructor
    · rintro ⟨p, ⟨q, hq, hqp⟩, rfl⟩
      by_cases hqd : q.1 = dep
      · have := h1 x q hq
        simp [hqd, this] at hqp
      · simp [hqd] at hqp; subst hqp
        exact ⟨⟨q, hq, rfl⟩, fun ⟨_, h⟩ => hqd h⟩
    · rintro ⟨⟨q, hq, rfl⟩, hne⟩
      have hqd : q.1 ≠ dep := fun h => hne ⟨trivial, h⟩
      exact ⟨q, ⟨q, hq, by simp [hqd]⟩, rfl⟩
  · simp only [upd, hx, if_false]
    constructor
    · intro h; exact ⟨h, fun ⟨h', _⟩ => h'.elim⟩
    · exact fun h => h.1

theorem allOne_unsubscribe {g : G} (h1 : AllOne g) (b dep : Id) : AllOne (unsubscribe g b dep) := by
  intro x p hp
  unfold unsubscribe at hp
  by_cases hx : x = b
  · subst hx
    simp only [upd, if_true, List.mem_filterMap] at hp
    obtain ⟨q, hq, hqp⟩ := hp
    by_cases hqd : q.1 = dep
    · have := h1 x q hq
      simp [hqd, this] at hqp
    · simp [hqd] at hqp; subst hqp; exact h1 x q hq
  · simp only [upd, hx, if_false] at hp
    exact h1 x p hp

theorem unsubscribe_fields (g : G) (b d : Id) :
    (unsubscribe g b d).bases = g.bases ∧ (unsubscribe g b d).sro = g.sro ∧ (unsubscribe g b d).root = g.root ∧
    (unsubscribe g b d).ids = g.ids := ⟨rfl, rfl, rfl, rfl⟩
theorem subscribe_fields (g : G) (b d : Id) :
    (subscribe g b d).bases = g.bases ∧ (subscribe g b d).sro = g.sro ∧ (subscribe g b d).root = g.root ∧
    (subscribe g b d).ids = g.ids := ⟨rfl, rfl, rfl, rfl⟩

/-- unsubscribing `s` from a list of bases -/
theorem unsub_fold {s : Id} : ∀ (old : List Id) (g : G), AllOne g →
    let r := old.foldl (fun g b => unsubscribe g b s) g
    AllOne r ∧ r.bases = g.bases ∧ r.sro = g.sro ∧ r.root = g.root ∧ r.ids = g.ids ∧
    ∀ x d, HasDep r x d ↔ HasDep g x d ∧ ¬ (d = s ∧ x ∈ old) := by
  intro old
  induction old with
  | nil => intro g h; exact ⟨h, rfl, rfl, rfl, rfl, fun x d => by simp⟩
  | cons b rest ih =>
    intro g h
    obtain ⟨a1, a2, a3, a4, a5, a6⟩ := ih (unsubscribe g b s) (allOne_unsubscribe h b s)
    refine ⟨a1, a2, a3, a4, a5, fun x d => ?_⟩
    simp only [List.foldl_cons]
    rw [a6, hasDep_unsubscribe h]
    simp only [List.mem_cons]
    constructor
    · rintro ⟨⟨h1, h2⟩, h3⟩
      exact ⟨h1, fun ⟨e, hx⟩ => by
        rcases hx with rfl | hx
        · exact h2 ⟨rfl, e⟩
        · exact h3 ⟨e, hx⟩⟩
    · rintro ⟨h1, h2⟩
      exact ⟨⟨h1, fun ⟨e1, e2⟩ => h2 ⟨e2, Or.inl e1⟩⟩, fun ⟨e, hx⟩ => h2 ⟨e, Or.inr hx⟩⟩

/-- subscribing `s` to a duplicate-free list of bases none of which lists it yet -/
theorem sub_fold {s : Id} : ∀ (bs : List Id) (g : G), AllOne g → bs.Nodup → (∀ b ∈ bs, ¬ HasDep g b s) →
    let r := bs.foldl (fun g b => subscribe g b s) g
    AllOne r ∧ r.bases = g.bases ∧ r.sro = g.sro ∧ r.root = g.root ∧ r.ids = g.ids ∧
    ∀ x d, HasDep r x d ↔ HasDep g x d ∨ (d = s ∧ x ∈ bs) := by
  intro bs
  induction bs with
  | nil => intro g h _ _; exact ⟨h, rfl, rfl, rfl, rfl, fun x d => by simp⟩
  | cons b rest ih =>
    intro g h hnd hno
    have hb := hno b (by simp)
    have hnd' := (List.nodup_cons.mp hnd)
    have hno' : ∀ b' ∈ rest, ¬ HasDep (subscribe g b s) b' s := by
      intro b' hb' hd
      rcases (hasDep_subscribe g b s b' s).mp hd with h' | ⟨e, _⟩
      · exact hno b' (by simp [hb']) h'
      · exact hnd'.1 (e ▸ hb')
    obtain ⟨a1, a2, a3, a4, a5, a6⟩ := ih (subscribe g b s) (allOne_subscribe h hb) hnd'.2 hno'
    refine ⟨a1, a2, a3, a4, a5, fun x d => ?_⟩
    simp only [List.foldl_cons]
    rw [a6, hasDep_subscribe]
    simp only [List.mem_cons]
    constructor
    · rintro ((h1 | ⟨e1, e2⟩) | ⟨e, hx⟩)
      · exact Or.inl h1
      · exact Or.inr ⟨e2, Or.inl e1⟩
      · exact Or.inr ⟨e, Or.inr hx⟩
    · rintro (h1 | ⟨e, hx⟩)
      · exact Or.inl (Or.inl h1)
      · rcases hx with rfl | hx
        · exact Or.inl (Or.inr ⟨rfl, e⟩)
        · exact Or.inr ⟨e, hx⟩

#print axioms sub_fold
end ZI.Graph2

namespace ZI.Graph2
open ZI.RO
open ZI.Prop (prop Down prop_spec)

/-- the fresh computation satisfies the local equations -/
theorem sroFresh_local {B : Bases} {rank : Id → Nat} {root : Id} (ha : Acyclic B rank) {N fuelRo : Nat}
    (hN : ∀ x, rank x ≤ N) (hfuel : N ≤ fuelRo) (F : Nat) (hF : N < F) :
    ∀ x, sroFresh B root F x = Fstep B root fuelRo (sroFresh B root F) x := by
  intro x
  cases F with
  | zero => omega
  | succ F' =>
    by_cases hx : x = root
    · subst hx; rw [sroFresh_succ_root, Fstep_root]
    · rw [sroFresh_succ_ne _ _ _ hx, Fstep_ne hx]
      simp only [sroStep]
      congr 2
      apply c3Node_congr
      · exact legacyRo_fuel ha (by have := hN x; omega) (by have := hN x; omega)
      · intro b hb
        have := ha x b hb
        have := hN x
        rw [sroFresh_fuel ha F' b (by omega)]

structure Good (g : G) (N : Nat) : Prop where
  allOne : AllOne g
  cons : ∀ x b, b ∈ g.bases x ↔ HasDep g b x
  acyc : ∃ rank, Acyclic g.bases rank ∧ ∀ x, rank x ≤ N
  fresh : ∀ F, N < F → ∀ x, g.sro x = sroFresh g.bases g.root F x

/-- re-basing `s` (duplicate-free new base list, result acyclic) preserves the invariant -/
theorem good_setBases {g : G} {N N' : Nat} (hg : Good g N) (s : Id) (bs : List Id) (hnd : bs.Nodup)
    (hacyc : ∃ rank', Acyclic (upd g.bases s bs) rank' ∧ ∀ x, rank' x ≤ N')
    (hN : N ≤ g.ids.length) (hN' : N' ≤ g.ids.length) :
    Good (setBases g s bs) N' := by
  obtain ⟨rank', ha', hb'⟩ := hacyc
  -- 1. unsubscribe from the old bases
  obtain ⟨u1, u2, u3, u4, u5, u6⟩ := unsub_fold (s := s) (g.bases s) g hg.allOne
  generalize hg1 : (g.bases s).foldl (fun g b => unsubscribe g b s) g = g1 at u1 u2 u3 u4 u5 u6
  -- 2. new base list
  let g2 : G := { g1 with bases := upd g1.bases s bs }
  have hno : ∀ b ∈ bs, ¬ HasDep g2 b s := by
    intro b _ hd
    have : HasDep g1 b s := hd
    rw [u6] at this
    exact this.2 ⟨rfl, (hg.cons s b).mpr this.1⟩
  have hone2 : AllOne g2 := u1
  -- 3. subscribe to the new bases
  obtain ⟨v1, v2, v3, v4, v5, v6⟩ := sub_fold (s := s) bs g2 hone2 hnd hno
  generalize hg3 : bs.foldl (fun g b => subscribe g b s) g2 = g3 at v1 v2 v3 v4 v5 v6
  have hB3 : g3.bases = upd g.bases s bs := by rw [v2]; show upd g1.bases s bs = _; rw [u2]
  have hsro3 : g3.sro = g.sro := by rw [v3]; exact u3
  have hroot3 : g3.root = g.root := by rw [v4]; exact u4
  have hids3 : g3.ids = g.ids := by rw [v5]; exact u5
  -- dependents and bases agree in g3
  have hcons3 : ∀ x b, b ∈ g3.bases x ↔ HasDep g3 b x := by
    intro x b
    rw [hB3, v6]
    have hg2 : HasDep g2 b x ↔ HasDep g1 b x := Iff.rfl
    rw [hg2, u6]
    by_cases hx : x = s
    · subst hx
      simp only [upd, if_true]
      constructor
      · intro h; exact Or.inr ⟨trivial, h⟩
      · rintro (⟨h1, h2⟩ | ⟨_, h⟩)
        · exact absurd ⟨trivial, (hg.cons x b).mpr h1⟩ h2
        · exact h
    · simp only [upd, hx, if_false]
      rw [hg.cons x b]
      constructor
      · intro h; exact Or.inl ⟨h, fun ⟨e, _⟩ => e.elim⟩
      · rintro (⟨h, _⟩ | ⟨e, _⟩)
        · exact h
        · exact e.elim
  -- 4. propagate
  have hset : setBases g s bs = changed (g3.ids.length + 1) (g3.ids.length + 1) g3 s := by
    simp only [setBases]
    rw [hg1]
    show changed _ _ (bs.foldl (fun g b => subscribe g b s) g2) s = _
    rw [hg3]
  obtain ⟨c1, c2, c3, c4, c5⟩ := changed_spec (g3.ids.length + 1) (g3.ids.length + 1) g3 s
  obtain ⟨rank, ha, hb⟩ := hg.acyc
  have hdiff : ∀ x, x ≠ s → g3.bases x = g.bases x := by intro x hx; rw [hB3]; simp [upd, hx]
  have hold : ∀ x, g3.sro x = Fstep g.bases g3.root (g3.ids.length + 1) g3.sro x := by
    intro x
    rw [hsro3, hroot3]
    have hfun : g.sro = sroFresh g.bases g.root (N+1) := funext (hg.fresh (N+1) (Nat.lt_succ_self _))
    rw [hfun]
    exact sroFresh_local ha hb (by rw [hids3]; omega) (N+1) (Nat.lt_succ_self _) x
  have hfresh := fresh_after_rebase (B := g.bases) (B' := g3.bases) (deps' := depIds g3) (rank' := rank')
    (root := g3.root) (s := s) (N := N') (fuelRo := g3.ids.length + 1) hdiff (hB3 ▸ ha') hb' (by rw [hids3]; omega)
    (fun x b h => (hcons3 x b).mp h) (fun b d h => (hcons3 d b).mpr h) hold (g3.ids.length + 1)
    (by rw [hids3]; have := hb' s; omega)
  rw [hset]
  refine ⟨?_, ?_, ?_, ?_⟩
  · intro x p hp; rw [c2] at hp; exact v1 x p hp
  · intro x b
    show b ∈ (changed _ _ g3 s).bases x ↔ x ∈ depIds (changed _ _ g3 s) b
    have : depIds (changed (g3.ids.length + 1) (g3.ids.length + 1) g3 s) = depIds g3 := by funext y; simp [depIds, c2]
    rw [c1, this]; exact hcons3 x b
  · exact ⟨rank', by rw [c1, hB3]; exact ha', hb'⟩
  · intro F hF x
    rw [c5, c1, c3]
    exact hfresh F x (by have := hb' x; omega)

#print axioms good_setBases
end ZI.Graph2

namespace ZI.Graph2
open ZI.RO

theorem sroStep_nobases {bases : Bases} {root x : Id} (fuel : Nat) (σ : Id → List Id) (h : bases x = []) (hx : x ≠ root) :
    sroStep bases root fuel σ x = [x, root] := by
  have hnode : (c3Node bases (legacyRo bases fuel) (fun b => ⟨σ b, false⟩) x).mro = [x] := by
    unfold c3Node
    rw [h]
    simp only [c3Tree, List.map_nil, List.append_nil]
    have := mergeLoop_eq_spec (c := x) (rest := [[]]) (by intro y hy; simp at hy; subst hy; simp)
      (by intro y hy; simp at hy; subst hy; simp)
    have e : [[x]] ++ [[]] = [x] :: [[]] := rfl
    rw [e, this]
    simp [specMerge]
  simp [sroStep, hnode, forceRoot, hx]

theorem good_init (root : Id) : Good (init root) 0 := by
  refine ⟨?_, ?_, ⟨fun _ => 0, ?_, fun _ => Nat.le_refl _⟩, ?_⟩
  · intro x p hp; simp [init] at hp
  · intro x b; simp [init, HasDep, depIds]
  · intro s b hb; simp [init] at hb
  · intro F hF x
    show (init root).sro x = sroFresh (fun _ => []) root F x
    cases F with
    | zero => omega
    | succ F' =>
      by_cases hx : x = root
      · subst hx; rw [sroFresh_succ_root]; simp [init]
      · rw [sroFresh_succ_ne _ _ _ hx, sroStep_nobases (F'+1) _ rfl hx]
        simp [init, hx]

inductive Op | new (s : Id) (bs : List Id) | set (s : Id) (bs : List Id)
def step (g : G) : Op → G
  | .new s bs => newNode g s bs
  | .set s bs => setBases g s bs

/-- an operation is well-formed when the new base list is duplicate-free and the resulting graph is acyclic -/
def WFOp (g : G) : Op → Prop
  | .new s bs => bs.Nodup ∧ ∃ rank', Acyclic (upd g.bases s bs) rank' ∧ ∀ x, rank' x ≤ g.ids.length
  | .set s bs => bs.Nodup ∧ ∃ rank', Acyclic (upd g.bases s bs) rank' ∧ ∀ x, rank' x ≤ g.ids.length

theorem foldl_unsub_ids (s : Id) : ∀ (l : List Id) (g : G), (l.foldl (fun g b => unsubscribe g b s) g).ids = g.ids := by
  intro l; induction l with
  | nil => intro g; rfl
  | cons b t ih => intro g; simp only [List.foldl_cons]; rw [ih]; rfl
theorem foldl_sub_ids (s : Id) : ∀ (l : List Id) (g : G), (l.foldl (fun g b => subscribe g b s) g).ids = g.ids := by
  intro l; induction l with
  | nil => intro g; rfl
  | cons b t ih => intro g; simp only [List.foldl_cons]; rw [ih]; rfl

theorem ids_setBases (g : G) (s : Id) (bs : List Id) : (setBases g s bs).ids = g.ids := by
  simp only [setBases]
  rw [(changed_spec _ _ _ s).2.2.2.1, foldl_sub_ids]
  show (List.foldl (fun g b => unsubscribe g b s) g (g.bases s)).ids = g.ids
  exact foldl_unsub_ids s _ g

/-- the invariant carried along a history -/
def Inv (g : G) : Prop := ∃ N, Good g N ∧ N ≤ g.ids.length

theorem inv_step (g : G) (op : Op) (hi : Inv g) (hw : WFOp g op) : Inv (step g op) := by
  obtain ⟨N, hg, hN⟩ := hi
  cases op with
  | set s bs =>
    obtain ⟨hnd, hac⟩ := hw
    refine ⟨g.ids.length, good_setBases hg s bs hnd hac hN (Nat.le_refl _), ?_⟩
    show g.ids.length ≤ (setBases g s bs).ids.length
    rw [ids_setBases]; exact Nat.le_refl _
  | new s bs =>
    obtain ⟨hnd, rank', hac, hb⟩ := hw
    let g' : G := { g with ids := g.ids ++ [s] }
    have hg' : Good g' N := ⟨hg.allOne, hg.cons, hg.acyc, hg.fresh⟩
    have hlen : g'.ids.length = g.ids.length + 1 := by simp [g']
    refine ⟨g.ids.length, good_setBases (g := g') hg' s bs hnd ⟨rank', hac, hb⟩ (by omega) (by omega), ?_⟩
    show g.ids.length ≤ (setBases g' s bs).ids.length
    rw [ids_setBases]; omega

/-- **C02_fresh**: after any well-formed history of node creations and `__bases__` reassignments, the cached
resolution order of every node equals the one computed from scratch on the current graph. -/
theorem C02_fresh (ops : List Op) :
    (∀ k (h : k < ops.length), WFOp ((ops.take k).foldl step (init 0)) ops[k]) →
    ∀ x, (ops.foldl step (init 0)).sro x = fresh (ops.foldl step (init 0)) x := by
  intro hwf
  have hinv : Inv (ops.foldl step (init 0)) := by
    -- generalise over the starting graph
    suffices h : ∀ (ops : List Op) (g : G), Inv g →
        (∀ k (h : k < ops.length), WFOp ((ops.take k).foldl step g) ops[k]) → Inv (ops.foldl step g) from
      h ops (init 0) ⟨0, good_init 0, Nat.zero_le _⟩ hwf
    intro ops
    induction ops with
    | nil => intro g hi _; exact hi
    | cons op rest ih =>
      intro g hi hw
      simp only [List.foldl_cons]
      have h0 : WFOp g op := by
        have := hw 0 (by simp)
        simpa [List.take] using this
      apply ih (step g op) (inv_step g op hi h0)
      intro k hk
      have := hw (k+1) (by simp; omega)
      simpa using this
  obtain ⟨N, hg, hN⟩ := hinv
  intro x
  exact hg.fresh _ (by omega) x

#print axioms C02_fresh
end ZI.Graph2
