import ZI.EqC3
namespace ZI.RO

theorem dropIgn_not_mem {t : List (List Id)} {c : Id} (hc : ∀ bs ∈ t, c ∉ bs) (hne : NoEmpty t) :
    dropIgn t (some c) = t := by
  unfold dropIgn
  have h1 : t.map (fun bs => bs.filter fun b => some b != some c) = t := by
    conv => rhs; rw [← List.map_id t]
    apply List.map_congr_left
    intro l hl
    have hf : (fun x : Id => some x != some c) = (fun x => x != c) := by
      funext x; rw [Bool.eq_iff_iff]; simp
    rw [hf]; exact filter_ne_of_not_mem (hc l hl)
  rw [h1]
  apply List.filter_eq_self.mpr
  intro l hl
  have := hne l hl
  cases l with
  | nil => exact absurd rfl this
  | cons => simp

theorem go_self {c : Id} {t : List (List Id)} (f : Nat) (acc : List Id) (hc : ∀ bs ∈ t, c ∉ bs) (hne : NoEmpty t) :
    go (f+1) ([c] :: t) acc = go f t (c :: acc) := by
  simp only [go, List.isEmpty_cons, Bool.false_eq_true, if_false, findNext_self c t hc]
  congr 1
  have : dropIgn ([c] :: t) (some c) = dropIgn t (some c) := by
    simp [dropIgn]
  rw [this, dropIgn_not_mem hc hne]

theorem go_nil (f : Nat) (acc : List Id) : go f [] acc = some acc.reverse := by
  cases f <;> simp [go]

theorem go_single : ∀ (l : List Id) (f : Nat) (acc : List Id), l.Nodup → l.length < f → l ≠ [] →
    go f [l] acc = some (acc.reverse ++ l) := by
  intro l
  induction l with
  | nil => intro f acc _ _ h; exact absurd rfl h
  | cons b tl ih =>
    intro f acc hnd hlen _
    cases f with
    | zero => simp at hlen
    | succ f =>
      have hfn : findNext [b :: tl] = some b := by
        simp [findNext, canChoose]
      simp only [go, List.isEmpty_cons, Bool.false_eq_true, if_false, hfn]
      have hb : b ∉ tl := (List.nodup_cons.mp hnd).1
      have hnd' := (List.nodup_cons.mp hnd).2
      by_cases htl : tl = []
      · subst htl
        have : dropIgn [[b]] (some b) = [] := by simp [dropIgn]
        rw [this]
        cases f <;> simp [go]
      · have : dropIgn [b :: tl] (some b) = [tl] := by
          have hf : (fun x : Id => some x != some b) = (fun x => x != b) := by
            funext x; rw [Bool.eq_iff_iff]; simp
          simp only [dropIgn, List.map_cons, List.map_nil, hf, filter_ne_cons_nodup hnd]
          cases tl with
          | nil => exact absurd rfl htl
          | cons => simp
        rw [this, ih f (b :: acc) hnd' (by simp at hlen; omega) htl]
        simp

theorem allSome_eq_some : ∀ (xs : List (Option (List Id))) (ls : List (List Id)),
    allSome xs = some ls → xs = ls.map some := by
  intro xs
  induction xs with
  | nil => intro ls h; simp [allSome] at h; subst h; rfl
  | cons x rest ih =>
    intro ls h
    cases x with
    | none => simp [allSome] at h
    | some v =>
      simp only [allSome] at h
      cases hr : allSome rest with
      | none => rw [hr] at h; simp at h
      | some vs =>
        rw [hr] at h; simp at h; subst h
        simp [ih vs hr]

theorem map_eq_of_some {α} {g : Id → Option α} {h : Id → α} :
    ∀ (bs : List Id) (ls : List α), bs.map g = ls.map some → (∀ b ∈ bs, ∀ x, g b = some x → h b = x) → bs.map h = ls := by
  intro bs
  induction bs with
  | nil => intro ls e _; cases ls <;> simp_all
  | cons b rest ih =>
    intro ls e hh
    cases ls with
    | nil => simp at e
    | cons x xs =>
      simp only [List.map_cons, List.cons.injEq] at e
      simp only [List.map_cons, List.cons.injEq]
      exact ⟨hh b (by simp) x e.1, ih xs e.2 fun b' hb' => hh b' (by simp [hb'])⟩

theorem size_append (a b : List (List Id)) : size (a ++ b) = size a + size b := by
  simp [size, List.sum_append]

theorem size_filter_le (t : List (List Id)) (p : List Id → Bool) : size (t.filter p) ≤ size t := by
  induction t with
  | nil => simp [size]
  | cons a t ih =>
    simp only [List.filter_cons]
    split <;> simp only [size_cons] <;> omega

/-- **C03_ro_eq_c3**: whenever the textbook C3 linearization exists, `ro.ro` returns it. -/
theorem ro_eq_c3 {bases : Bases} {rank : Id → Nat} (ha : Acyclic bases rank) (hnd : NodupBases bases) :
    ∀ (f : Nat) (c : Id) (l : List Id), rank c < f → lin bases f c = some l → (roFull bases f c).mro = l := by
  intro f
  induction f with
  | zero => intro c l h; omega
  | succ f ih =>
    intro c l hr hl
    simp only [lin] at hl
    cases hall : allSome ((bases c).map (lin bases f)) with
    | none => rw [hall] at hl; simp at hl
    | some ls =>
      rw [hall] at hl
      simp only [] at hl
      have hmap := allSome_eq_some _ _ hall
      have hrb : ∀ b ∈ bases c, rank b < f := fun b hb => by have := ha c b hb; omega
      have hls : (bases c).map (fun b => (roFull bases f b).mro) = ls :=
        map_eq_of_some (bases c) ls hmap fun b hb x hx => ih b x (hrb b hb) hx
      have hvalid : ∀ b ∈ bases c, ValidLin bases b (roFull bases f b).mro :=
        fun b hb => roFull_valid ha f b (hrb b hb)
      cases hsm : specMerge (size (ls ++ [bases c]) + 1) (ls ++ [bases c]) [] with
      | none => rw [hsm] at hl; simp at hl
      | some m =>
        rw [hsm] at hl; simp at hl; subst hl
        -- all lists of the merge are duplicate-free, and `c` is in none of them
        have hndl : ∀ x ∈ ls ++ [bases c], x.Nodup := by
          intro x hx
          rcases List.mem_append.mp hx with h | h
          · rw [← hls] at h
            obtain ⟨b, hb, rfl⟩ := List.mem_map.mp h
            exact (hvalid b hb).nodup
          · simp at h; subst h; exact hnd c
        have hcn : ∀ x ∈ ls ++ [bases c], c ∉ x := by
          intro x hx hcx
          rcases List.mem_append.mp hx with h | h
          · rw [← hls] at h
            obtain ⟨b, hb, rfl⟩ := List.mem_map.mp h
            exact not_reach_self_of_base ha hb (((hvalid b hb).mem c).mp hcx)
          · simp at h; subst h; have := ha c c hcx; omega
        show (c3Node bases (legacyRo bases (f+1)) (roFull bases f) c).mro = c :: m
        unfold c3Node
        split
        · -- single base: the textbook merge of `[lin b, [b]]` is `lin b`
          rename_i b hbs
          have hb : b ∈ bases c := by rw [hbs]; simp
          have hv := hvalid b hb
          rw [hbs] at hls hsm
          simp at hls
          subst hls
          congr 1
          -- compute the spec merge
          obtain ⟨tl, htl⟩ : ∃ tl, (roFull bases f b).mro = b :: tl := by
            have := hv.head
            cases h : (roFull bases f b).mro with
            | nil => rw [h] at this; simp at this
            | cons a t => rw [h] at this; simp at this; subst this; exact ⟨t, rfl⟩
          rw [spec_eq_go _ _ _ (by intro x hx; simp at hx; rcases hx with rfl | rfl; exact hv.nodup; simp)] at hsm
          have hne : ([(roFull bases f b).mro] ++ [[b]]).filter nonempty = [b :: tl, [b]] := by
            rw [htl]; simp [nonempty]
          rw [hne] at hsm
          have hfn : findNext [b :: tl, [b]] = some b := by simp [findNext, canChoose]
          simp only [go, List.isEmpty_cons, Bool.false_eq_true, if_false, hfn] at hsm
          have hbnd : (b :: tl).Nodup := htl ▸ hv.nodup
          have hd : dropIgn [b :: tl, [b]] (some b) = if tl = [] then [] else [tl] := by
            have hf : (fun x : Id => some x != some b) = (fun x => x != b) := by
              funext x; rw [Bool.eq_iff_iff]; simp
            simp only [dropIgn, List.map_cons, List.map_nil, hf, filter_ne_cons_nodup hbnd]
            cases tl <;> simp
          rw [hd] at hsm
          by_cases htle : tl = []
          · subst htle
            simp only [if_true] at hsm
            rw [go_nil] at hsm
            simp at hsm
            rw [htl, ← hsm]
          · simp only [htle, if_false] at hsm
            rw [go_single tl _ [b] (List.nodup_cons.mp hbnd).2 (by rw [htl]; simp [size]; omega) htle] at hsm
            simp at hsm
            rw [htl, ← hsm]
        · -- general case
          rename_i hnot
          have htree : c3Tree c (bases c) (roFull bases f) = [c] :: (ls ++ [bases c]) := by
            simp [c3Tree, hls]
          rw [htree]
          have hgo : mergeLoop (size ([c] :: (ls ++ [bases c])) + 1) ([c] :: (ls ++ [bases c])) none [] =
              some (c :: m) := by
            rw [mergeLoop_eq_go, dropIgn_none_eq]
            have hfil : ([c] :: (ls ++ [bases c])).filter nonempty = [c] :: (ls ++ [bases c]).filter nonempty := by
              simp [nonempty]
            rw [hfil, size_cons]
            have hcn' : ∀ x ∈ (ls ++ [bases c]).filter nonempty, c ∉ x :=
              fun x hx => hcn x (List.mem_filter.mp hx).1
            have hne' : NoEmpty ((ls ++ [bases c]).filter nonempty) := by
              intro x hx he
              have := (List.mem_filter.mp hx).2
              simp [nonempty, he] at this
            have e1 : [c].length + size (ls ++ [bases c]) + 1 = (size (ls ++ [bases c]) + 1) + 1 := by simp; omega
            rw [e1, go_self _ _ hcn' hne', go_acc]
            rw [spec_eq_go _ _ _ hndl] at hsm
            have hsz := size_filter_le (ls ++ [bases c]) nonempty
            rw [hsm]
            simp
          rw [hgo]

#print axioms ro_eq_c3
end ZI.RO
