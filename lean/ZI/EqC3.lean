import ZI.Valid2
/-! Scratch: `ro.py`'s merge equals the textbook merge on duplicate-free lists (towards C03_eq_c3). -/
namespace ZI.RO

def nonempty (l : List Id) : Bool := !l.isEmpty
def pop (b : Id) (l : List Id) : List Id := if l.head? == some b then l.tail else l

theorem find?_congr' {α} {p q : α → Bool} {l : List α} (h : ∀ x ∈ l, p x = q x) : l.find? p = l.find? q := by
  induction l with
  | nil => rfl
  | cons a t ih =>
    simp only [List.find?_cons, h a (by simp)]
    rw [ih fun x hx => h x (by simp [hx])]

theorem all_congr_mem {α} {p q : α → Bool} {l : List α} (h : ∀ x ∈ l, p x = q x) : l.all p = l.all q := by
  induction l with
  | nil => rfl
  | cons a t ih =>
    simp only [List.all_cons, h a (by simp)]
    rw [ih fun x hx => h x (by simp [hx])]

/-- on duplicate-free lists `_can_choose_base` is the textbook test -/
theorem canChoose_eq_spec {t : List (List Id)} (hnd : ∀ l ∈ t, l.Nodup) (b : Id) :
    canChoose b t = t.all fun l => !(l.tail.contains b) := by
  unfold canChoose
  apply all_congr_mem
  intro l hl
  cases l with
  | nil => simp
  | cons h tl =>
    simp only [List.tail_cons]
    by_cases e : h = b
    · subst e; have := (List.nodup_cons.mp (hnd _ hl)).1; simp [this]
    · simp [e]

theorem filter_eq_pop {b : Id} {l : List Id} (hnd : l.Nodup) (hc : (∃ tl, l = b :: tl) ∨ b ∉ l) :
    l.filter (fun x => some x != some b) = pop b l := by
  have hf : (fun x : Id => some x != some b) = (fun x => x != b) := by
    funext x; rw [Bool.eq_iff_iff]; simp
  rw [hf]
  rcases hc with ⟨tl, rfl⟩ | hn
  · rw [filter_ne_cons_nodup hnd]; simp [pop]
  · rw [filter_ne_of_not_mem hn]
    unfold pop
    cases l with
    | nil => simp
    | cons h tl =>
      have : h ≠ b := fun e => hn (by simp [e])
      simp [this]

theorem dropIgn_eq_pop {t : List (List Id)} {b : Id} (hnd : ∀ l ∈ t, l.Nodup) (hc : canChoose b t = true) :
    dropIgn t (some b) = (t.map (pop b)).filter nonempty := by
  unfold dropIgn
  congr 1
  apply List.map_congr_left
  intro l hl
  exact filter_eq_pop (hnd l hl) (canChoose_cases hc hl)

theorem nodup_pop {b : Id} {l : List Id} (h : l.Nodup) : (pop b l).Nodup := by
  unfold pop; split
  · cases l with
    | nil => simp
    | cons a t => exact (List.nodup_cons.mp h).2
  · exact h

theorem dropIgn_none_eq (t : List (List Id)) : dropIgn t none = t.filter nonempty := by
  unfold dropIgn
  have : t.map (fun bs => bs.filter fun b => some b != none) = t := by
    conv => rhs; rw [← List.map_id t]
    apply List.map_congr_left
    intro l _
    simp
  rw [this]; rfl

/-- **the two merges coincide on duplicate-free lists** -/
theorem spec_eq_go : ∀ (f : Nat) (lists : List (List Id)) (acc : List Id), (∀ l ∈ lists, l.Nodup) →
    specMerge f lists acc = go f (lists.filter nonempty) acc := by
  intro f
  induction f with
  | zero => intro lists acc _; simp [specMerge, go]
  | succ f ih =>
    intro lists acc hnd
    have hndt : ∀ l ∈ lists.filter nonempty, l.Nodup := fun l hl => hnd l (List.mem_filter.mp hl).1
    simp only [specMerge, go]
    have e0 : (lists.filter fun l => !l.isEmpty) = lists.filter nonempty := rfl
    rw [e0]
    split
    · rfl
    · have hfind : ((lists.filter nonempty).filterMap List.head?).find?
          (fun h => (lists.filter nonempty).all fun l => !(l.tail.contains h)) = findNext (lists.filter nonempty) := by
        unfold findNext
        apply find?_congr'
        intro x _
        exact (canChoose_eq_spec hndt x).symm
      rw [hfind]
      cases hfn : findNext (lists.filter nonempty) with
      | none => rfl
      | some b =>
        simp only []
        have hc := (findNext_spec hfn).2
        have hpop : ((lists.filter nonempty).map fun l => if l.head? == some b then l.tail else l) =
            (lists.filter nonempty).map (pop b) := rfl
        rw [hpop, ih _ _ (by
          intro l hl
          obtain ⟨l0, hl0, rfl⟩ := List.mem_map.mp hl
          exact nodup_pop (hndt l0 hl0)), dropIgn_eq_pop hndt hc]

/-! ### accumulator and fuel independence of `go` -/
theorem go_acc : ∀ (f : Nat) (t : List (List Id)) (acc : List Id),
    go f t acc = (go f t []).map (acc.reverse ++ ·) := by
  intro f
  induction f with
  | zero => intro t acc; simp [go]
  | succ f ih =>
    intro t acc
    simp only [go]
    split
    · simp
    · cases findNext t with
      | none => simp
      | some b =>
        simp only []
        rw [ih _ (b :: acc), ih _ [b]]
        simp [Option.map_map, Function.comp_def, List.append_assoc]

theorem go_fuel : ∀ (f : Nat) (t : List (List Id)) (acc : List Id), size t < f → go f t acc = go (f+1) t acc := by
  intro f
  induction f with
  | zero => intro t acc h; omega
  | succ f ih =>
    intro t acc hsz
    rw [go, go]
    split
    · rfl
    · cases hfn : findNext t with
      | none => rfl
      | some b =>
        simp only []
        obtain ⟨⟨tl, hh⟩, _⟩ := findNext_spec hfn
        have := size_dropIgn_lt hh
        exact ih _ _ (by omega)

theorem go_fuel_le {f f' : Nat} {t : List (List Id)} {acc : List Id} (h : size t < f) (h' : f ≤ f') :
    go f t acc = go f' t acc := by
  induction h' with
  | refl => rfl
  | step hle ih =>
    have hle' : f ≤ _ := hle
    rw [ih]; exact go_fuel _ _ _ (by omega)

#print axioms spec_eq_go
#print axioms go_fuel_le
end ZI.RO
