import ZI.RO
/-! Scratch: the core facts about `C3._merge` that `C03_valid` needs. -/
namespace ZI.RO

/-- the loop with the ignore-filter already applied -/
def go : Nat → List (List Id) → List Id → Option (List Id)
  | 0, _, acc => some acc.reverse
  | f+1, t, acc =>
    if t.isEmpty then some acc.reverse else
    match findNext t with
    | none => none
    | some b => go f (dropIgn t (some b)) (b :: acc)

theorem mergeLoop_eq_go (f : Nat) (tree : List (List Id)) (last : Option Id) (acc : List Id) :
    mergeLoop f tree last acc = go f (dropIgn tree last) acc := by
  induction f generalizing tree last acc with
  | zero => simp [mergeLoop, go]
  | succ f ih =>
    simp only [mergeLoop, go]
    split
    · rfl
    · cases h : findNext (dropIgn tree last) with
      | none => rfl
      | some b => simp only []; exact ih _ _ _

def NoEmpty (t : List (List Id)) : Prop := ∀ bs ∈ t, bs ≠ []
def AllNodup (t : List (List Id)) : Prop := ∀ bs ∈ t, bs.Nodup

theorem mem_dropIgn_some {t : List (List Id)} {b : Id} {bs' : List Id} :
    bs' ∈ dropIgn t (some b) ↔ ∃ bs ∈ t, bs' = bs.filter (fun x => x != b) ∧ bs' ≠ [] := by
  unfold dropIgn
  simp only [List.mem_filter, List.mem_map]
  constructor
  · rintro ⟨⟨bs, hbs, rfl⟩, hne⟩
    refine ⟨bs, hbs, ?_, ?_⟩
    · congr 1
    · intro h; simp [h] at hne
  · rintro ⟨bs, hbs, rfl, hne⟩
    refine ⟨⟨bs, hbs, ?_⟩, ?_⟩
    · congr 1
    · cases h : List.filter (fun x => x != b) bs with
      | nil => exact absurd h hne
      | cons => simp

theorem noEmpty_dropIgn (t : List (List Id)) (ign : Option Id) : NoEmpty (dropIgn t ign) := by
  intro bs h
  unfold dropIgn at h
  simp only [List.mem_filter] at h
  intro hc; simp [hc] at h

theorem allNodup_dropIgn {t : List (List Id)} (h : AllNodup t) (b : Id) : AllNodup (dropIgn t (some b)) := by
  intro bs' hbs'
  obtain ⟨bs, hbs, rfl, _⟩ := mem_dropIgn_some.mp hbs'
  exact (h bs hbs).filter _

theorem findNext_spec {t : List (List Id)} {b : Id} (h : findNext t = some b) :
    (∃ tl, (b :: tl) ∈ t) ∧ canChoose b t = true := by
  unfold findNext at h
  have h1 := List.find?_some h
  have h2 := List.mem_of_find?_eq_some h
  simp only [List.mem_filterMap] at h2
  obtain ⟨bs, hbs, hh⟩ := h2
  cases bs with
  | nil => simp at hh
  | cons x tl => simp at hh; subst hh; exact ⟨⟨tl, hbs⟩, h1⟩

/-- the chosen base is the head of a list or absent from it -/
theorem canChoose_cases {t : List (List Id)} {b : Id} (hc : canChoose b t = true) {bs : List Id} (hbs : bs ∈ t) :
    (∃ tl, bs = b :: tl) ∨ b ∉ bs := by
  unfold canChoose at hc
  rw [List.all_eq_true] at hc
  have := hc bs hbs
  cases bs with
  | nil => right; simp
  | cons h tl =>
    simp only [Bool.or_eq_true, beq_iff_eq, Bool.not_eq_true', List.contains_eq_mem, decide_eq_false_iff_not] at this
    rcases this with rfl | hn
    · left; exact ⟨tl, rfl⟩
    · by_cases hb : h = b
      · left; exact ⟨tl, by rw [hb]⟩
      · right; simp; exact ⟨fun e => hb e.symm, hn⟩

theorem filter_ne_of_not_mem {b : Id} {bs : List Id} (h : b ∉ bs) : bs.filter (fun x => x != b) = bs := by
  apply List.filter_eq_self.mpr
  intro x hx
  simp; intro e; exact h (e ▸ hx)

theorem filter_ne_cons_nodup {b : Id} {tl : List Id} (h : (b :: tl).Nodup) :
    (b :: tl).filter (fun x => x != b) = tl := by
  have hb : b ∉ tl := (List.nodup_cons.mp h).1
  simp [filter_ne_of_not_mem hb]

theorem size_cons (bs : List Id) (t : List (List Id)) : size (bs :: t) = bs.length + size t := by
  simp [size]

theorem size_dropIgn_le (t : List (List Id)) (ign : Option Id) : size (dropIgn t ign) ≤ size t := by
  induction t with
  | nil => simp [dropIgn, size]
  | cons bs rest ih =>
    have hl : (bs.filter fun b => some b != ign).length ≤ bs.length := List.length_filter_le _ _
    have : dropIgn (bs :: rest) ign =
        (if !(bs.filter fun b => some b != ign).isEmpty then [bs.filter fun b => some b != ign] else []) ++ dropIgn rest ign := by
      simp only [dropIgn, List.map_cons, List.filter_cons]
      split <;> simp_all
    rw [this, size_cons]
    split
    · simp only [List.singleton_append, size_cons]; omega
    · simp only [List.nil_append]; omega

theorem size_dropIgn_lt {t : List (List Id)} {b : Id} {tl : List Id} (h : (b :: tl) ∈ t) :
    size (dropIgn t (some b)) < size t := by
  induction t with
  | nil => simp at h
  | cons bs rest ih =>
    have hl : (bs.filter fun x => some x != some b).length ≤ bs.length := List.length_filter_le _ _
    have e : dropIgn (bs :: rest) (some b) =
        (if !(bs.filter fun x => some x != some b).isEmpty then [bs.filter fun x => some x != some b] else []) ++ dropIgn rest (some b) := by
      simp only [dropIgn, List.map_cons, List.filter_cons]
      split <;> simp_all
    rw [e, size_cons]
    rcases List.mem_cons.mp h with rfl | hr
    · -- the head list loses at least `b`
      have hlt : ((b :: tl).filter fun x => some x != some b).length < (b :: tl).length := by
        have : ((b :: tl).filter fun x => some x != some b) = (tl.filter fun x => some x != some b) := by simp
        rw [this]; have := List.length_filter_le (fun x => some x != some b) tl; simp; omega
      have hle := size_dropIgn_le rest (some b)
      split
      · simp only [List.singleton_append, size_cons]; omega
      · simp only [List.nil_append]; simp at hlt ⊢; omega
    · have := ih hr
      split
      · simp only [List.singleton_append, size_cons]; omega
      · simp only [List.nil_append]; omega

/-- **Main lemma.** When the merge succeeds its output continues `acc`, has no duplicates, contains exactly the
members of the lists, and every list is a sublist of it (so the order inside every list is preserved). -/
theorem go_spec : ∀ (f : Nat) (t : List (List Id)) (acc l : List Id),
    size t < f → NoEmpty t → go f t acc = some l →
    ∃ m, l = acc.reverse ++ m ∧ m.Nodup ∧ (∀ x, x ∈ m ↔ ∃ bs ∈ t, x ∈ bs) ∧ (∀ bs ∈ t, bs.Nodup → bs.Sublist m) := by
  intro f
  induction f with
  | zero => intro t acc l h; omega
  | succ f ih =>
    intro t acc l hsz hne hgo
    simp only [go] at hgo
    split at hgo
    · -- t empty
      rename_i hte
      have : t = [] := by simpa using hte
      subst this
      refine ⟨[], ?_, List.nodup_nil, ?_, ?_⟩
      · simp at hgo; simp [hgo]
      · intro x; simp
      · intro bs h; simp at h
    · split at hgo
      · simp at hgo
      · rename_i b hfn
        obtain ⟨⟨tl0, hhead⟩, hcc⟩ := findNext_spec hfn
        have hlt := size_dropIgn_lt hhead
        obtain ⟨m', hl, hnd', hmem', hsub'⟩ :=
          ih (dropIgn t (some b)) (b :: acc) l (by omega) (noEmpty_dropIgn _ _) hgo
        have hb_notin : b ∉ m' := by
          intro hb
          obtain ⟨bs', hbs', hx⟩ := (hmem' b).mp hb
          obtain ⟨bs, _, rfl, _⟩ := mem_dropIgn_some.mp hbs'
          simp at hx
        refine ⟨b :: m', ?_, List.nodup_cons.mpr ⟨hb_notin, hnd'⟩, ?_, ?_⟩
        · simp [hl]
        · intro x
          constructor
          · intro hx
            rcases List.mem_cons.mp hx with rfl | hx
            · exact ⟨_, hhead, by simp⟩
            · obtain ⟨bs', hbs', hxb⟩ := (hmem' x).mp hx
              obtain ⟨bs, hbs, rfl, _⟩ := mem_dropIgn_some.mp hbs'
              exact ⟨bs, hbs, (List.mem_filter.mp hxb).1⟩
          · rintro ⟨bs, hbs, hx⟩
            by_cases hxb : x = b
            · subst hxb; simp
            · apply List.mem_cons_of_mem
              apply (hmem' x).mpr
              refine ⟨bs.filter (fun y => y != b), mem_dropIgn_some.mpr ⟨bs, hbs, rfl, ?_⟩, ?_⟩
              · intro he
                have : x ∈ bs.filter (fun y => y != b) := List.mem_filter.mpr ⟨hx, by simpa using hxb⟩
                rw [he] at this; simp at this
              · exact List.mem_filter.mpr ⟨hx, by simpa using hxb⟩
        · intro bs hbs hbnd
          rcases canChoose_cases hcc hbs with ⟨tl, rfl⟩ | hnb
          · have hf := filter_ne_cons_nodup hbnd
            by_cases htl : tl = []
            · subst htl; simp
            · have : tl ∈ dropIgn t (some b) := mem_dropIgn_some.mpr ⟨_, hbs, hf.symm, htl⟩
              exact (hsub' tl this (List.nodup_cons.mp hbnd).2).cons_cons b
          · have hf := filter_ne_of_not_mem hnb
            have : bs ∈ dropIgn t (some b) := mem_dropIgn_some.mpr ⟨bs, hbs, hf.symm, hne bs hbs⟩
            exact (hsub' bs this hbnd).cons b

end ZI.RO
