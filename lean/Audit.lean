import Lean
import ZI
open Lean Elab Command
/-! Prints one line `THM <name> <axioms…>` for every theorem constant under namespace `ZI`.
    The check scripts read this table: every property theorem must be present and depend on
    nothing but propext / Classical.choice / Quot.sound. -/
elab "#audit_all" : command => do
  let env ← getEnv
  let mut out : Array String := #[]
  for (name, info) in env.constants.toList do
    if name.getRoot == `ZI && !name.isInternal then
      if let .thmInfo _ := info then
        let axs ← liftCoreM (Lean.collectAxioms name)
        out := out.push ("THM " ++ name.toString ++ " " ++ " ".intercalate (axs.toList.map (·.toString)))
  IO.println ("\n".intercalate out.toList)

#audit_all
