import Drv.Ro
import Drv.Graph2
import Drv.Classes
import Drv.Registry
import Drv.Components
import Drv.World
import Drv.Order
import Drv.Adapt
import Drv.Verify
import Drv.Method
import Drv.Decl
import Drv.Attrs
import Drv.Pickle
import Drv.SpecTwin
/-! Line-protocol driver: `driver <layer> [args]` reads operation lines on stdin and prints one
    answer line per operation, computed by the executable model definitions. -/
def main (args : List String) : IO Unit := do
  match args with
  | "ro" :: _ => Drv.Ro.main
  | "graph" :: rest => Drv.Graph2.main rest
  | "classes" :: rest => Drv.Classes.main rest
  | "registry" :: _ => Drv.Registry.main
  | "components" :: _ => Drv.Components.main
  | "world" :: _ => Drv.World.main
  | "order" :: rest => Drv.Order.main rest
  | "adapt" :: rest => Drv.Adapt.main rest
  | "verify" :: _ => Drv.Verify.main
  | "method" :: _ => Drv.Method.main
  | "decl" :: _ => Drv.Decl.main
  | "attrs" :: _ => Drv.Attrs.main
  | "pickle" :: _ => Drv.Pickle.main
  | "spectwin" :: _ => Drv.SpecTwin.main
  | _ => IO.eprintln "usage: driver <layer>"
