import ZI.AdaptModel
/-! Driver for the adaptation layer (C14): one call per line,
    `call <conf> <provided> <hooks> <alt> <custom>`; tokens: conf `a` absent, `A<e>` attribute access raises, `n` returns
    None, `v<k>` returns value, `r<e>` raises; hooks comma-separated `n`/`v<k>`/`r<e>` or `-`; alt `-` or a value;
    custom `-` or a hook token.  Answer: `<out> | <log>`. -/
namespace Drv.Adapt
open ZI.Adapt
def num (s : String) : Nat := ((s.drop 1).toString).toNat!
def hook (t : String) : Hook :=
  if t.startsWith "v" then .value (num t) else if t.startsWith "r" then .raises (num t) else .none
def conf (t : String) : Conform :=
  if t == "a" then .absent else if t.startsWith "A" then .attrRaises (num t) else if t == "n" then .returnsNone
  else if t.startsWith "v" then .returns (num t) else .raises (num t)
def shwOut : Out → String
  | .self => "self" | .val v => s!"val {v}" | .exc e => s!"exc {e}" | .couldNotAdapt => "cna"
def shwEv : Ev → String
  | .conform => "c" | .providedCheck => "p" | .hook k => s!"h{k}" | .custom => "x"
partial def loop (h : IO.FS.Stream) (c : Bool) : IO Unit := do
  let line ← h.getLine
  if line.isEmpty then return ()
  match (line.trimAscii.toString.splitOn " ").filter (· != "") with
  | ["call", cf, p, hs, alt, cu] =>
    let hooks := if hs == "-" then [] else (hs.splitOn ",").map hook
    let a := if alt == "-" then none else some alt.toNat!
    let cust := if cu == "-" then none else some (hook cu)
    let f := if c then callC else callPy
    let (o, log) := f (conf cf) (p == "1") hooks a cust
    IO.println s!"{shwOut o} | {" ".intercalate (log.map shwEv)}"
  | _ => IO.println "bad"
  loop h c
def main (args : List String) : IO Unit := do loop (← IO.getStdin) (args.contains "c")
end Drv.Adapt
