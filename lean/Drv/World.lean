import ZI.WorldModel
import ZI.Props.C19Hist
namespace Drv.World
open ZI.World ZI.Classes ZI.Registry ZI.Graph
def nums (s : String) : List Nat := (s.splitOn " ").filterMap String.toNat?
def val (s : String) : Option Val := match nums s with | [i, e] => some ⟨i, e⟩ | _ => none
def shwV (o : Option Val) : String := match o with | some v => toString v.ident | none => "N"
def retNone (v : Val) : Bool := v.ident % 4 == 0
def sortS (l : List String) : List String := (l.toArray.qsort (· < ·)).toList
/-- the object a key token stands for (`o5` → 5, `s3.5` → 5) -/
def objOf (t : String) : String :=
  let n : String := (t.drop 1).toString
  if t.startsWith "s" then (match n.splitOn "." with | [_, o] => o | _ => n) else n
def F := 64
/-- a required key: `i7` interface, `c3` class specification, `o5` providedBy(object), `s3.5` providedBy(super(C3, o5)) -/
def key (u : U) (t : String) : U × Nat :=
  let n : String := (t.drop 1).toString
  if t == "e" then               -- the shared empty declaration: a specification with no interface of its own below Interface
    let before := u.cw.g
    let (cw, s) := implementedBy F u.cw 0
    (notify before { u with cw := cw } |>.sync, s)
  else if t.startsWith "i" then (u, n.toNat!)
  else if t.startsWith "c" then
    let before := u.cw.g
    let (cw, s) := implementedBy F u.cw n.toNat!
    (notify before { u with cw := cw } |>.sync, s)
  else if t.startsWith "o" then
    let before := u.cw.g
    let (cw, s) := providedBy F u.cw n.toNat!
    (notify before { u with cw := cw } |>.sync, s)
  else match n.splitOn "." with
    | [c, o] => superSpec u c.toNat! o.toNat!
    | _ => (u, 0)
def keys (u : U) (s : String) : U × List Nat :=
  ((s.splitOn " ").filter (· != "")).foldl (fun (acc : U × List Nat) t => let (u', k) := key acc.1 t; (u', acc.2 ++ [k])) (u, [])

/-! ### lock-step shadow: the proved declarations model with `super` queries (`ZI.C19`, on `ZI.Classes2`) and the abstract
specification state of `C01_exact` / `C19_super`.  Registry operations do not concern it; class-level operations and every
key token that makes the real code create a specification are mirrored.  Operations outside the theorems' histories
(interface re-basing, a class specification among the declared ones, instance-level implementer declarations) switch the
well-formedness flag off for the rest of the script. -/
structure Sh where
  u19 : ZI.C19.W19
  σ : ZI.C01.Spec
  wf : Bool
  nsuper : Nat := 0
  nsuperWf : Nat := 0

def Sh.init (fixed : Bool) : Sh := { u19 := { w := ZI.Classes2.init fixed, superCache := [] }, σ := ZI.C01.Spec.init, wf := fixed }
def Sh.step (sh : Sh) (op : ZI.C19.Op19) : Sh :=
  { sh with u19 := ZI.C19.stepU F sh.u19 op, σ := ZI.C19.specStep19 sh.σ op, wf := sh.wf && decide (ZI.C19.WFop19 sh.σ op) }
def Sh.keyTok (sh : Sh) (t : String) : Sh :=
  let n : String := (t.drop 1).toString
  if t == "e" then sh.step (.base (.qImpl 0))
  else if t.startsWith "i" then sh
  else if t.startsWith "c" then sh.step (.base (.qImpl n.toNat!))
  else if t.startsWith "o" then sh.step (.base (.qProv n.toNat!))
  else match n.splitOn "." with
    | [c, o] => sh.step (.qSuper c.toNat! o.toNat!)
    | _ => sh
def Sh.keyToks (sh : Sh) (s : String) : Sh := ((s.splitOn " ").filter (· != "")).foldl Sh.keyTok sh
def bs0 (s : String) : List Nat := if (nums s).isEmpty then [0] else nums s
def Sh.line (sh : Sh) (f : List String) : Sh :=
  match f with
  | ["resetfixed", _] => Sh.init true
  | ["reset", _] => Sh.init false
  | ["iface", s, bs] => sh.step (.base (.iface s.toNat! (bs0 bs)))
  | ["isetbases", _, _] => { sh with wf := false }
  | ["class", c, bs] => sh.step (.base (.cls c.toNat! (bs0 bs)))
  | ["class", c, bs, _] => sh.step (.base (.cls c.toNat! (bs0 bs)))
  | ["idecl", _, _] => sh
  | ["inst", o, c] => sh.step (.base (.inst o.toNat! c.toNat!))
  | ["first", c, xs] => sh.step (.base (.classImplementsFirst c.toNat! (nums xs).head!))
  | ["addspec", _, _] => { sh with wf := false }
  | ["add", c, xs] => sh.step (.base (.classImplements c.toNat! (nums xs)))
  | ["only", c, xs] => sh.step (.base (.classImplementsOnly c.toNat! (nums xs)))
  | ["dp", o, xs] => sh.step (.base (.directlyProvides o.toNat! (nums xs)))
  | ["also", o, xs] => sh.step (.base (.alsoProvides o.toNat! (nums xs)))
  | ["nl", o, x] => sh.step (.base (.noLongerProvides o.toNat! x.toNat!))
  | [cmd, _, req, _, _, _] => if cmd == "reg" || cmd == "unreg" || cmd == "qadapter" then sh.keyToks req else sh
  | [cmd, _, req, _, _] => if ["unreg", "unsub", "lookup1", "sub", "lookup"].contains cmd then sh.keyToks req else sh
  | [cmd, _, req, _] => if ["names", "subscribers", "lookupAll", "subs"].contains cmd then sh.keyToks req else sh
  | ["prov", t] => sh.keyTok t
  | _ => sh

/-- for `prov|s<C>.<O>`: compare the validated model's answer with the proved model's and (inside the theorem's guards) with
the statement of `C19_super`: exactly the interfaces implemented by the classes after `C` in the MRO of `type(O)` -/
def superFlags (sh : Sh) (t : String) (ans : List Nat) : Sh × String :=
  if !(t.startsWith "s") then (sh, "") else
  match ((t.drop 1).toString).splitOn "." with
  | [c, o] =>
    let c := c.toNat!; let o := o.toNat!
    let r := ZI.C19.superSpec2 F sh.u19 c o
    let ans2 := (r.1.w.g.sro r.2).filter ZI.Classes2.isIface
    let rem := ZI.World.remainder (ZI.C19.smro sh.σ (sh.σ.clsOf o)) c
    let specOk := sh.σ.ifaces.all fun i => ans.contains i == (i == 0 || rem.any fun d => ZI.C01.implB sh.σ d i)
    ({ sh with nsuper := sh.nsuper + 1, nsuperWf := sh.nsuperWf + (if sh.wf then 1 else 0) },
     (if sh.wf && ans2 != ans then " SUPERDIFF2" else "") ++ (if sh.wf && !specOk then " SUPERSPECDIFF" else ""))
  | _ => (sh, "")

partial def loop (h : IO.FS.Stream) (u : U) (sh0 : Sh) : IO Unit := do
  let line ← h.getLine
  if line.isEmpty then return ()
  let f := (line.trimAscii.toString.splitOn "|").map fun s => s.trimAscii.toString
  let sh := sh0.line f
  match f with
  | ["resetfixed", v] => IO.println "ok"; loop h (init true (v == "1")) sh
  | ["reset", v] => IO.println "ok"; loop h (init false (v == "1")) sh
  | ["iface", s, bs] => IO.println "ok"; loop h (declOp u fun w => { w with g := newNode w.g s.toNat! (if (nums bs).isEmpty then [0] else nums bs) }) sh
  | ["isetbases", s, bs] => IO.println "ok"; loop h (declOp u fun w => { w with g := ZI.Graph.setBases w.g s.toNat! (if (nums bs).isEmpty then [0] else nums bs) }) sh
  | ["class", c, bs] => IO.println "ok"; loop h { u with cw := u.cw.setCls c.toNat! { pyBases := if (nums bs).isEmpty then [0] else nums bs } } sh
  | ["class", c, bs, _] => IO.println "ok"; loop h { u with cw := u.cw.setCls c.toNat! { pyBases := if (nums bs).isEmpty then [0] else nums bs } } sh
  | ["idecl", _, _] => IO.println "ok"; loop h u sh      -- implementer(I)(instance): declares what the instance's *products* implement; nothing any query here sees
  | ["inst", o, c] => IO.println "ok"; loop h { u with cw := u.cw.setInst o.toNat! { cls := c.toNat! } } sh
  | ["first", c, xs] => IO.println "ok"; loop h (declOp u fun w => classImplementsFirst F w c.toNat! (nums xs).head!) sh
  | ["addspec", c, hc] =>          -- classImplements(C, implementedBy(H)): another class's specification among the declared ones
      IO.println "ok"; loop h (declOp u fun w => let (w, hs) := implementedBy F w hc.toNat!; classImplements F w c.toNat! [hs]) sh
  | ["add", c, xs] => IO.println "ok"; loop h (declOp u fun w => classImplements F w c.toNat! (nums xs)) sh
  | ["only", c, xs] => IO.println "ok"; loop h (declOp u fun w => classImplementsOnly F w c.toNat! (nums xs)) sh
  | ["dp", o, xs] => IO.println "ok"; loop h (declOp u fun w => directlyProvides F w o.toNat! (nums xs)) sh
  | ["also", o, xs] => IO.println "ok"; loop h (declOp u fun w => alsoProvides F w o.toNat! (nums xs)) sh
  | ["nl", o, x] =>
      let before := u.cw.g
      let (cw, err) := noLongerProvides F (collect { u.cw with pinned := regRefs u }) o.toNat! x.toNat!
      IO.println (if err then "ValueError" else "ok"); loop h (notify before { u with cw := cw }).sync sh
  | ["newreg", r, bs] => IO.println "ok"; loop h (regOp u fun w => ZI.Registry.setBases 32 (w.setReg r.toNat! {}) r.toNat! (nums bs)) sh
  | ["reg", r, req, p, name, v] =>
      let (u, ks) := keys u req
      IO.println "ok"; loop h (regOp u fun w => register 32 w r.toNat! (ks.map some) p.toNat! name (val v).get!) sh
  | ["unreg", r, req, p, name] =>
      let (u, ks) := keys u req
      IO.println "ok"; loop h (regOp u fun w => unregister 32 w r.toNat! (ks.map some) p.toNat! name none) sh
  | ["unreg", r, req, p, name, v] =>
      let (u, ks) := keys u req
      IO.println "ok"; loop h (regOp u fun w => unregister 32 w r.toNat! (ks.map some) p.toNat! name (val v)) sh
  | ["unsub", r, req, p, v] =>
      let (u, ks) := keys u req
      IO.println "ok"; loop h (regOp u fun w => unsubscribe 32 w r.toNat! (ks.map some) (if p == "N" then none else some p.toNat!) (val v)) sh
  | ["rbases", r, bs] => IO.println "ok"; loop h (regOp u fun w => ZI.Registry.setBases 32 w r.toNat! (nums bs)) sh
  | ["rebuild", r] => IO.println "ok"; loop h (regOp u fun w => ZI.Registry.rebuild 32 w r.toNat!) sh
  | ["lookup1", r, req, p, name] =>
      let (u, ks) := keys u req
      let (u, a) := uLookup u r.toNat! ks p.toNat! name
      IO.println (shwV a); loop h u sh
  | ["names", r, req, p] =>
      let (u, ks) := keys u req
      let (u, a) := uLookupAll u r.toNat! ks p.toNat!
      IO.println (" ".intercalate (sortS (a.map fun p => p.1))); loop h u sh
  | ["qadapter", r, req, p, name, _] =>       -- queryAdapter / adapter_hook / queryMultiAdapter on objects (incl. super proxies)
      let (u, ks) := keys u req
      let (u, a) := uLookup u r.toNat! ks p.toNat! name
      let os := " ".intercalate (((req.splitOn " ").filter (· != "")).map objOf)
      IO.println (match a with | some v => if retNone v then "default" else s!"res {v.ident} {os}" | none => "default"); loop h u sh
  | ["subscribers", r, req, p] =>
      let (u, ks) := keys u req
      let (u, a) := uSubscriptions u r.toNat! ks (some p.toNat!)
      IO.println (" ".intercalate ((a.filter fun v => !retNone v).map fun v => toString v.ident)); loop h u sh
  | ["sub", r, req, p, v] =>
      let (u, ks) := keys u req
      IO.println "ok"; loop h (regOp u fun w => subscribe 32 w r.toNat! (ks.map some) (if p == "N" then none else some p.toNat!) (val v).get!) sh
  | ["lookup", r, req, p, name] =>
      let (u, ks) := keys u req
      let (u, a) := uLookup u r.toNat! ks p.toNat! name
      IO.println (shwV a); loop h u sh
  | ["lookupAll", r, req, p] =>
      let (u, ks) := keys u req
      let (u, a) := uLookupAll u r.toNat! ks p.toNat!
      let srt := a.toArray.qsort (fun x y => x.1 < y.1) |>.toList
      IO.println (" ".intercalate (srt.map fun p => s!"{p.1}={p.2.ident}")); loop h u sh
  | ["subs", r, req, p] =>
      let (u, ks) := keys u req
      let (u, a) := uSubscriptions u r.toNat! ks (if p == "N" then none else some p.toNat!)
      IO.println (" ".intercalate (a.map fun v => toString v.ident)); loop h u sh
  | ["prov", t] =>
      let (u, s) := key u t
      let ans := (u.cw.sro s).filter isIface
      let (sh, fl) := superFlags sh t ans
      IO.println (" ".intercalate (ans.map toString) ++ fl); loop h u sh
  | ["wf"] => IO.println s!"wf {sh.wf} {sh.nsuperWf} {sh.nsuper}"; loop h u sh
  | ["dbg"] =>
      IO.println s!"refs={regRefs u} req={u.required} super={u.superCache} caches={u.rw.regs.map fun p => (p.1, p.2.cache.map (·.1.2.2), p.2.mcache.map (·.1.2), p.2.scache.map (·.1.2))}"; loop h u sh
  | _ => IO.println s!"bad {f}"; loop h u sh
def main : IO Unit := do loop (← IO.getStdin) (init false false) (Sh.init false)
end Drv.World
