import ZI.WorldModel
namespace Drv.World
open ZI.World ZI.Classes ZI.Registry ZI.Graph
def nums (s : String) : List Nat := (s.splitOn " ").filterMap String.toNat?
def val (s : String) : Option Val := match nums s with | [i, e] => some ⟨i, e⟩ | _ => none
def shwV (o : Option Val) : String := match o with | some v => toString v.ident | none => "N"
def retNone (v : Val) : Bool := v.ident % 4 == 0
def sortS (l : List String) : List String := (l.toArray.qsort (· < ·)).toList
/-- the object a key token stands for (`o5` → 5, `s3.5` → 5) -/
def objOf (t : String) : String :=
  let n : String := (t.drop 1).toString
  if t.startsWith "s" then (match n.splitOn "." with | [_, o] => o | _ => n) else n
def F := 64
/-- a required key: `i7` interface, `c3` class specification, `o5` providedBy(object), `s3.5` providedBy(super(C3, o5)) -/
def key (u : U) (t : String) : U × Nat :=
  let n : String := (t.drop 1).toString
  if t == "e" then               -- the shared empty declaration: a specification with no interface of its own below Interface
    let before := u.cw.g
    let (cw, s) := implementedBy F u.cw 0
    (notify before { u with cw := cw } |>.sync, s)
  else if t.startsWith "i" then (u, n.toNat!)
  else if t.startsWith "c" then
    let before := u.cw.g
    let (cw, s) := implementedBy F u.cw n.toNat!
    (notify before { u with cw := cw } |>.sync, s)
  else if t.startsWith "o" then
    let before := u.cw.g
    let (cw, s) := providedBy F u.cw n.toNat!
    (notify before { u with cw := cw } |>.sync, s)
  else match n.splitOn "." with
    | [c, o] => superSpec u c.toNat! o.toNat!
    | _ => (u, 0)
def keys (u : U) (s : String) : U × List Nat :=
  ((s.splitOn " ").filter (· != "")).foldl (fun (acc : U × List Nat) t => let (u', k) := key acc.1 t; (u', acc.2 ++ [k])) (u, [])
partial def loop (h : IO.FS.Stream) (u : U) : IO Unit := do
  let line ← h.getLine
  if line.isEmpty then return ()
  let f := (line.trimAscii.toString.splitOn "|").map fun s => s.trimAscii.toString
  match f with
  | ["resetfixed", v] => IO.println "ok"; loop h (init true (v == "1"))
  | ["reset", v] => IO.println "ok"; loop h (init false (v == "1"))
  | ["iface", s, bs] => IO.println "ok"; loop h (declOp u fun w => { w with g := newNode w.g s.toNat! (if (nums bs).isEmpty then [0] else nums bs) })
  | ["isetbases", s, bs] => IO.println "ok"; loop h (declOp u fun w => { w with g := ZI.Graph.setBases w.g s.toNat! (if (nums bs).isEmpty then [0] else nums bs) })
  | ["class", c, bs] => IO.println "ok"; loop h { u with cw := u.cw.setCls c.toNat! { pyBases := if (nums bs).isEmpty then [0] else nums bs } }
  | ["class", c, bs, _] => IO.println "ok"; loop h { u with cw := u.cw.setCls c.toNat! { pyBases := if (nums bs).isEmpty then [0] else nums bs } }
  | ["idecl", _, _] => IO.println "ok"; loop h u      -- implementer(I)(instance): declares what the instance's *products* implement; nothing any query here sees
  | ["inst", o, c] => IO.println "ok"; loop h { u with cw := u.cw.setInst o.toNat! { cls := c.toNat! } }
  | ["first", c, xs] => IO.println "ok"; loop h (declOp u fun w => classImplementsFirst F w c.toNat! (nums xs).head!)
  | ["addspec", c, hc] =>          -- classImplements(C, implementedBy(H)): another class's specification among the declared ones
      IO.println "ok"; loop h (declOp u fun w => let (w, hs) := implementedBy F w hc.toNat!; classImplements F w c.toNat! [hs])
  | ["add", c, xs] => IO.println "ok"; loop h (declOp u fun w => classImplements F w c.toNat! (nums xs))
  | ["only", c, xs] => IO.println "ok"; loop h (declOp u fun w => classImplementsOnly F w c.toNat! (nums xs))
  | ["dp", o, xs] => IO.println "ok"; loop h (declOp u fun w => directlyProvides F w o.toNat! (nums xs))
  | ["also", o, xs] => IO.println "ok"; loop h (declOp u fun w => alsoProvides F w o.toNat! (nums xs))
  | ["nl", o, x] =>
      let before := u.cw.g
      let (cw, err) := noLongerProvides F (collect { u.cw with pinned := regRefs u }) o.toNat! x.toNat!
      IO.println (if err then "ValueError" else "ok"); loop h (notify before { u with cw := cw }).sync
  | ["newreg", r, bs] => IO.println "ok"; loop h (regOp u fun w => ZI.Registry.setBases 32 (w.setReg r.toNat! {}) r.toNat! (nums bs))
  | ["reg", r, req, p, name, v] =>
      let (u, ks) := keys u req
      IO.println "ok"; loop h (regOp u fun w => register 32 w r.toNat! (ks.map some) p.toNat! name (val v).get!)
  | ["unreg", r, req, p, name] =>
      let (u, ks) := keys u req
      IO.println "ok"; loop h (regOp u fun w => unregister 32 w r.toNat! (ks.map some) p.toNat! name none)
  | ["unreg", r, req, p, name, v] =>
      let (u, ks) := keys u req
      IO.println "ok"; loop h (regOp u fun w => unregister 32 w r.toNat! (ks.map some) p.toNat! name (val v))
  | ["unsub", r, req, p, v] =>
      let (u, ks) := keys u req
      IO.println "ok"; loop h (regOp u fun w => unsubscribe 32 w r.toNat! (ks.map some) (if p == "N" then none else some p.toNat!) (val v))
  | ["rbases", r, bs] => IO.println "ok"; loop h (regOp u fun w => ZI.Registry.setBases 32 w r.toNat! (nums bs))
  | ["rebuild", r] => IO.println "ok"; loop h (regOp u fun w => ZI.Registry.rebuild 32 w r.toNat!)
  | ["lookup1", r, req, p, name] =>
      let (u, ks) := keys u req
      let (u, a) := uLookup u r.toNat! ks p.toNat! name
      IO.println (shwV a); loop h u
  | ["names", r, req, p] =>
      let (u, ks) := keys u req
      let (u, a) := uLookupAll u r.toNat! ks p.toNat!
      IO.println (" ".intercalate (sortS (a.map fun p => p.1))); loop h u
  | ["qadapter", r, req, p, name, _] =>       -- queryAdapter / adapter_hook / queryMultiAdapter on objects (incl. super proxies)
      let (u, ks) := keys u req
      let (u, a) := uLookup u r.toNat! ks p.toNat! name
      let os := " ".intercalate (((req.splitOn " ").filter (· != "")).map objOf)
      IO.println (match a with | some v => if retNone v then "default" else s!"res {v.ident} {os}" | none => "default"); loop h u
  | ["subscribers", r, req, p] =>
      let (u, ks) := keys u req
      let (u, a) := uSubscriptions u r.toNat! ks (some p.toNat!)
      IO.println (" ".intercalate ((a.filter fun v => !retNone v).map fun v => toString v.ident)); loop h u
  | ["sub", r, req, p, v] =>
      let (u, ks) := keys u req
      IO.println "ok"; loop h (regOp u fun w => subscribe 32 w r.toNat! (ks.map some) (if p == "N" then none else some p.toNat!) (val v).get!)
  | ["lookup", r, req, p, name] =>
      let (u, ks) := keys u req
      let (u, a) := uLookup u r.toNat! ks p.toNat! name
      IO.println (shwV a); loop h u
  | ["lookupAll", r, req, p] =>
      let (u, ks) := keys u req
      let (u, a) := uLookupAll u r.toNat! ks p.toNat!
      let srt := a.toArray.qsort (fun x y => x.1 < y.1) |>.toList
      IO.println (" ".intercalate (srt.map fun p => s!"{p.1}={p.2.ident}")); loop h u
  | ["subs", r, req, p] =>
      let (u, ks) := keys u req
      let (u, a) := uSubscriptions u r.toNat! ks (if p == "N" then none else some p.toNat!)
      IO.println (" ".intercalate (a.map fun v => toString v.ident)); loop h u
  | ["prov", t] =>
      let (u, s) := key u t
      IO.println (" ".intercalate (((u.cw.sro s).filter isIface).map toString)); loop h u
  | ["dbg"] =>
      IO.println s!"refs={regRefs u} req={u.required} super={u.superCache} caches={u.rw.regs.map fun p => (p.1, p.2.cache.map (·.1.2.2), p.2.mcache.map (·.1.2), p.2.scache.map (·.1.2))}"; loop h u
  | _ => IO.println s!"bad {f}"; loop h u
def main : IO Unit := do loop (← IO.getStdin) (init false false)
end Drv.World
