import ZI.Components
namespace Drv.Components
open ZI.Registry ZI.Components
def nums (s : String) : List Nat := (s.splitOn " ").filterMap String.toNat?
/-- `@name`: the name is not passed to the call, the component carries it as `__component_name__` -/
def nm (s : String) : String := if s.startsWith "@" then (s.drop 1).toString else s
def comp (s : String) : Option C := match nums s with | [i, e, h] => some ⟨⟨i, e⟩, h == 1⟩ | _ => none
def shwV (o : Option Val) : String := match o with | some v => toString v.ident | none => "N"
def fresh (sros : List (Nat × List Nat)) : Comp :=
  let sro := fun i => ((sros.find? (·.1 == i)).map (·.2)).getD [i, 0]
  let w : World := { sro := sro, iro := sro, regs := [], verifying := false }
  let w := setBases 8 (w.setReg 0 {}) 0 []
  let w := setBases 8 (w.setReg 1 {}) 1 []
  { w := w }
def out (r : Comp × String × List Ev) : String := r.2.1 ++ " [" ++ " ".intercalate (r.2.2.map Ev.str) ++ "]"
/-- the eight mutators (and the refused calls): the new state, the return value, the events -/
def mut? (s : Comp) (f : List String) : Option (Comp × String × List Ev) :=
  match f with
  | ["regU", _, _, "#b", _] => some (s, "ValueError", [])      -- a name that is not a string: refused, nothing written
  | ["regU", _, _, "#n", _] => some (s, "ValueError", [])
  | ["regU", _, _, "#t", _] => some (s, "ValueError", [])
  | ["regA", _, _, _, "#b"] => some (s, "ValueError", [])
  | ["regA", _, _, _, "#n"] => some (s, "ValueError", [])
  | ["regA", _, _, _, "#t"] => some (s, "ValueError", [])
  | ["regU", c, p, name, info] => some (registerUtility s (comp c).get! (if p.startsWith "^" then (p.drop 1).toString.toNat! else p.toNat!) (nm name) info)
  | ["unregU", c, p, name] => some (unregisterUtility s (comp c) p.toNat! name)
  | ["regA", c, req, p, name] => some (registerAdapter s (comp c).get! (nums req) p.toNat! (nm name) "i")
  | ["unregA", c, req, p, name] => some (unregisterAdapter s (comp c) (nums req) p.toNat! name)
  | ["regS", c, req, p] => some (registerSubscriptionAdapter s (comp c).get! (nums req) p.toNat! "i")
  | ["unregS", c, req, p] => some (unregisterSubscriptionAdapter s (comp c) (nums req) p.toNat!)
  | ["regH", c, req] => some (registerHandler s (comp c).get! (nums req) "i")
  | ["unregH", c, req] => some (unregisterHandler s (comp c) (nums req))
  | _ => none
/-- `nest`: "" = nothing pending; "R" / "U" = the next call has a subscriber reacting to the first event of that kind by making
    the call of the line after it; "!" = that subscriber fired (the next call is the one it made).  Every event is delivered when
    the call that emits it has finished writing, so the two calls compose like two calls made one after the other. -/
partial def loop (h : IO.FS.Stream) (s : Comp) (sros : List (Nat × List Nat)) (nest : String := "") (pre : Option String := none) : IO Unit := do
  let line ← match pre with | some l => pure l | none => h.getLine
  if line.isEmpty then return ()
  let f := (line.trimAscii.toString.splitOn "|").map fun s => s.trimAscii.toString
  -- a REPLACING registerUtility delivers the Unregistered event of the old utility in the middle: old one out, the subscriber's
  -- call, then the registration proper (which looks at the slot again: repair 7054408)
  if nest == "U" then
    if let ["regU", c, p, name, info] := f then
      if !(name.startsWith "#") then
        let pv := if p.startsWith "^" then (p.drop 1).toString.toNat! else p.toNat!
        let nmv := nm name
        let cv := (comp c).get!
        if let some reg := AList.get? s.utilRegs (pv, nmv) then
          if !(reg.1.eq cv && reg.2 == info) then
            let r1 := unregisterUtility s (some reg.1) pv nmv
            if r1.2.1 == "True" then
              let line2 ← h.getLine
              let f2 := (line2.trimAscii.toString.splitOn "|").map fun s => s.trimAscii.toString
              match (if f2 == ["reinit"] then some (reinit r1.1, "ok", ([] : List Ev)) else mut? r1.1 f2) with
              | some r2 =>
                let r3 := registerUtility r2.1 cv pv nmv info
                IO.println (out (r3.1, r3.2.1, r1.2.2 ++ r3.2.2))
                IO.println ((if f2 == ["reinit"] then "ok" else out r2) ++ " NESTED")
                return (← loop h r3.1 sros "")
              | none =>          -- (a shrunk script: no call follows, nothing is armed in the implementation either)
                let r := registerUtility s cv pv nmv info
                IO.println (out r)
                return (← loop h r.1 sros "" (some line2))
  if let some r := mut? s f then
    let fired := nest != "" && nest != "!" && r.2.2.any (fun e => (Ev.str e).startsWith nest)
    IO.println (out r ++ (if nest == "!" then " NESTED" else ""))
    return (← loop h r.1 sros (if fired then "!" else ""))
  match f with
  | ["nest", k] => IO.println "ok"; loop h s sros k
  | ["reset"] => IO.println "ok"; loop h (fresh []) []
  | ["sro", i, l] => let sros := sros ++ [(i.toNat!, nums l)]; IO.println "ok"; loop h (fresh sros) sros
  -- the history's `Components` is of the picklable kind: its two registries are (picklable) verifying adapter registries
  | ["persist"] => IO.println "ok"; loop h { s with w := { s.w with verifying := true } } sros
  -- pickle round trip: the volatile counter cache and the lookup objects are rebuilt from what was pickled
  | ["reload"] => IO.println "ok"; loop h (reload s) sros
  | ["reinit"] => IO.println (if nest == "!" then "ok NESTED" else "ok"); loop h (reinit s) sros
  | ["listU"] =>
      IO.println (" ".intercalate (s.utilRegs.map fun e => s!"{e.1.1}/{e.1.2}={e.2.1.v.ident}/{e.2.2}")); loop h s sros
  | ["listA"] =>
      IO.println (" ".intercalate (s.adapterRegs.map fun e => s!"{e.1.1}/{e.1.2.1}/{e.1.2.2}={e.2.1.v.ident}")); loop h s sros
  | ["listS"] => IO.println (" ".intercalate (s.subRegs.map fun e => s!"{e.1}/{e.2.1}={e.2.2.1.v.ident}")); loop h s sros
  | ["listH"] => IO.println (" ".intercalate (s.handlerRegs.map fun e => s!"{e.1}={e.2.1.v.ident}")); loop h s sros
  | ["qU", p, name] => let (w, a) := lookup s.w UT [] p.toNat! name; IO.println (shwV a); loop h { s with w := w } sros
  | ["allU", p] =>
      let (w, a) := subscriptions s.w UT [] (some p.toNat!)
      IO.println (" ".intercalate (a.map fun v => toString v.ident)); loop h { s with w := w } sros
  | ["forU", p] =>
      let (w, a) := lookupAll s.w UT [] p.toNat!
      let srt := a.toArray.qsort (fun x y => x.1 < y.1) |>.toList
      IO.println (" ".intercalate (srt.map fun p => s!"{p.1}={p.2.ident}")); loop h { s with w := w } sros
  | ["qA", req, p, name] => let (w, a) := lookup s.w AD (nums req) p.toNat! name; IO.println (shwV a); loop h { s with w := w } sros
  | ["subsA", req, p] =>
      let pv := if p == "N" then none else p.toNat?
      let (w, a) := subscriptions s.w AD (nums req) pv
      IO.println (" ".intercalate (a.map fun v => toString v.ident)); loop h { s with w := w } sros
  | ["baseq", _] => IO.println "ok"; loop h s sros
  | ["baseq"] => IO.println "ok"; loop h s sros        -- the object's base (outside the model: nothing of the history touches it)
  | ["probe"] => let r := probe s; IO.println s!"{r.1} {r.2}"; loop h s sros
  | _ => IO.println s!"bad {f}"; loop h s sros
def main : IO Unit := do loop (← IO.getStdin) (fresh []) []
end Drv.Components
