import ZI.SpecTwin
/-! Driver for the declaration-query twins (C10, C01).  A line carries the VIEW probed from a real object:
`pb <isSuper 0/1> <__providedBy__> <__provides__> <__class__>` with
  value  = `A` (AttributeError) | `O` (another exception) | `V:<id>:<isSpecBase 0/1>:<extends n|a|o>`
  class  = `A` | `O` | `C:<id>:<class __provides__ value>`           (fields separated by blanks, the class value by `/`)
and the answer lists what each twin decides: `py=… c=… cpinned=… gospy=… gosc=…`.
`ib <isSuper> <dictOk> <N | I:<id>:<isImplements>:<isNone>> <N | B:<id>>` → `py=… c=…`. -/
namespace Drv.SpecTwin
open ZI.SpecTwin
def exc? (s : String) : Option Exc := if s == "a" then some .attr else if s == "o" then some .other else none
def val? (s : String) : Option (Get ValView) :=
  match s.splitOn ":" with
  | ["A"] => some (.err .attr)
  | ["O"] => some (.err .other)
  | ["V", i, sb, e] => some (.ok ⟨i.toNat!, sb == "1", exc? e⟩)
  | _ => none
def cls? (s : String) : Option (Get ClsView) :=
  match s.splitOn "/" with
  | ["A"] => some (.err .attr)
  | ["O"] => some (.err .other)
  | [c, p] => (match c.splitOn ":", val? p with
      | ["C", i], some pv => some (.ok ⟨i.toNat!, pv⟩)
      | _, _ => none)
  | _ => none
def shw : Res → String
  | .val i => s!"val:{i}"
  | .implBy c => s!"impl:{c}"
  | .implBySuper => "super"
  | .empty => "empty"
  | .raise .attr => "raise:attr"
  | .raise .other => "raise:other"
def shwI : IRes → String
  | .spec i => s!"spec:{i}"
  | .super_ => "super"
  | .slow => "slow"
partial def loop (h : IO.FS.Stream) : IO Unit := do
  let line ← h.getLine
  if line.isEmpty then return ()
  match (line.trimAscii.toString.splitOn " ").filter (· != "") with
  | ["pb", su, pb, pr, c] =>
    (match val? pb, val? pr, cls? c with
     | some pb, some pr, some c =>
        let o : ObView := ⟨su == "1", pb, pr, c⟩
        IO.println s!"py={shw (providedByPy o)} c={shw (providedByC o)} cpinned={shw (providedByCPinned o)} gospy={shw (getObjectSpecificationPy o)} gosc={shw (getObjectSpecificationC o)}"
     | _, _, _ => IO.println "bad")
    loop h
  | ["ib", su, d, im, b] =>
    let impl : Option (Option (Nat × Bool) × Bool) := match im.splitOn ":" with
      | ["N"] => some (none, false)
      | ["I", i, isI, isN] => some (some (i.toNat!, isI == "1"), isN == "1")
      | _ => none
    let bi : Option (Option Nat) := match b.splitOn ":" with
      | ["N"] => some none
      | ["B", i] => some (some i.toNat!)
      | _ => none
    (match impl, bi with
     | some (im, isN), some bi =>
        let v : ImplView := ⟨su == "1", d == "1", im, isN, bi⟩
        IO.println s!"py={shwI (implementedByPy v)} c={shwI (implementedByC v)}"
     | _, _ => IO.println "bad")
    loop h
  | _ => IO.println "bad"; loop h
def main : IO Unit := do loop (← IO.getStdin)
end Drv.SpecTwin
