import ZI.Graph2
/-! Driver for the specification-graph layer (C02, C03): `new`/`set` lines mutate the model graph,
    `q` prints the cached order of a node next to everything `ro.py` computes on the current bases. -/
namespace Drv.Graph2
open ZI.Graph2 ZI.RO
def nums (s : String) : List Nat := (s.splitOn " ").filterMap String.toNat?
def shw (l : List Nat) : String := " ".intercalate (l.map toString)
def sortN (l : List Nat) : List Nat := (l.toArray.qsort (· < ·)).toList

structure St where
  g : G
  kinds : List (Nat × Bool)      -- true = interface
  mode : String                  -- "default" | "strict" | "legacy"

def St.isI (s : St) (x : Nat) : Bool := ((s.kinds.find? (·.1 == x)).map (·.2)).getD true

/-- strict environment: the leaf merge over the cached base orders must succeed at every node -/
def strictOk (g : G) : Bool := g.ids.all fun c =>
  c == g.root ||
  match g.bases c with
  | [_] => true
  | bs => (mergeLoop (size (c3Tree c bs fun b => ⟨g.sro b, false⟩) + 1) (c3Tree c bs fun b => ⟨g.sro b, false⟩) none []).isSome

/-- legacy environment: every cached order is the legacy order of the current hierarchy, root forced last -/
def legacyView (g : G) : G :=
  { g with sro := fun x => if x = g.root then [g.root] else forceRoot g.root (legacyRo g.bases (g.ids.length + 1) x) }

def view (s : St) : G := if s.mode == "legacy" then legacyView s.g else s.g

partial def loop (h : IO.FS.Stream) (s : St) : IO Unit := do
  let line ← h.getLine
  if line.isEmpty then return ()
  match line.trimAscii.toString.splitOn ":" with
  | [cmd, rest] =>
    match (cmd.splitOn " ").filter (· != "") with
    | ["reset"] => IO.println "ok"; loop h { s with g := init 0, kinds := [(0, true)] }
    | ["new", x, k] =>
      let g := newNode s.g x.toNat! (nums rest)
      if s.mode == "strict" && !strictOk g then IO.println "err Inconsistent"; loop h s
      else IO.println "ok"; loop h { s with g := g, kinds := s.kinds ++ [(x.toNat!, k == "I")] }
    | ["newtwin", x, _, k] =>      -- an interface with the same name and module as an existing one: a node of its own
      let g := newNode s.g x.toNat! (nums rest)
      if s.mode == "strict" && !strictOk g then IO.println "err Inconsistent"; loop h s
      else IO.println "ok"; loop h { s with g := g, kinds := s.kinds ++ [(x.toNat!, k == "I")] }
    | ["set", x] =>
      let g := setBases s.g x.toNat! (nums rest)
      if s.mode == "strict" && !strictOk g then IO.println "err Inconsistent"; loop h s
      else IO.println "ok"; loop h { s with g := g }
    | ["q", x] =>
      let g := view s
      let c := x.toNat!
      let n := g.ids.length + 1
      let sro := g.sro c
      let r := if s.mode == "legacy" then ⟨legacyRo g.bases n c, (roFull g.bases n c).incons⟩ else roFull g.bases n c
      let st := if s.mode == "legacy" then (roStrict g.bases n c).map (fun _ => legacyRo g.bases n c) else roStrict g.bases n c
      IO.println s!"sro {shw sro} | iro {shw (sro.filter s.isI)} | imp {shw (sortN sro)} | ro {shw r.mro} | strict {match st with | some l => shw l | none => "ERR"} | cons {isConsistent g.bases n c}"
      loop h s
    | ["qs", x] =>          -- the cached order only (no from-scratch ro.ro: its memo is keyed by equality, G-keys)
      let g := view s
      let sro := g.sro x.toNat!
      IO.println s!"sro {shw sro} | iro {shw (sro.filter s.isI)} | imp {shw (sortN sro)}"
      loop h s
    | ["q1", x] =>          -- ONE question `x.isOrExtends(t)` (t after the colon), nothing else asked of x
      let g := view s
      let t := (nums rest).headD 0
      IO.println (if (g.sro x.toNat!).contains t || t == 0 then "true" else "false")
      loop h s
    | ["fresh"] => IO.println s!"{freshHolds s.g}"; loop h s
    | _ => IO.println "bad"; loop h s
  | _ => IO.println "bad"; loop h s
def main (args : List String) : IO Unit := do
  loop (← IO.getStdin) { g := init 0, kinds := [(0, true)], mode := args.headD "default" }
end Drv.Graph2
