import ZI.RO
namespace Drv.Ro
open ZI.RO
def parseBases (s : String) : Bases :=
  -- "1:0;3:0,1" -> function
  let entries := (s.splitOn ";").filterMap fun e =>
    match e.splitOn ":" with
    | [k, v] => match k.toNat? with
      | some kk => some (kk, (v.splitOn ",").filterMap String.toNat?)
      | none => none
    | _ => none
  fun c => ((entries.find? (·.1 == c)).map (·.2)).getD []
def shw (l : List Nat) : String := " ".intercalate (l.map toString)
partial def loop (h : IO.FS.Stream) : IO Unit := do
  let line ← h.getLine
  if line.isEmpty then return ()
  match line.trimAscii.toString.splitOn "|" with
  | [n, b, c, root] =>
    let n := n.toNat!; let c := c.toNat!; let root := root.toNat!
    let bases := parseBases b
    let r := roFull bases (n+1) c
    let st := roStrict bases (n+1) c
    IO.println s!"ro {shw r.mro} | inc {r.incons} | strict {match st with | some l => shw l | none => "ERR"} | sro {shw (sroFresh bases root (n+1) c)} | cons {isConsistent bases n c} | asis {isConsistentAsIs bases (n+1) c}"
  | _ => IO.println "bad"
  loop h
def main : IO Unit := do loop (← IO.getStdin)
end Drv.Ro
