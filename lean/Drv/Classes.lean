import ZI.Classes
namespace Drv.Classes
open ZI.Classes ZI.Graph
def nums (s : String) : List Nat := (s.splitOn " ").filterMap String.toNat?
def shw (l : List Nat) : String := " ".intercalate (l.map toString)
def FUEL := 64
/-- `Specification.interfaces()` / `Declaration.__iter__`: ordered dedupe of the interfaces of the bases -/
def interfacesOf : Nat → W → Nat → List Nat
  | 0, _, _ => []
  | f+1, w, s => if isIface s then [s] else dedupe ((w.g.get s).bases.flatMap (interfacesOf f w))
partial def loop (h : IO.FS.Stream) (w : W) (fixed : Bool) : IO Unit := do
  let line ← h.getLine
  if line.isEmpty then return ()
  match line.trimAscii.toString.splitOn ":" with
  | [cmd, rest] =>
    let args := nums rest
    match (cmd.splitOn " ").filter (· != "") with
    | ["reset"] => IO.println "ok"; loop h (init fixed) fixed
    | ["iface", s] => IO.println "ok"; loop h { w with g := newNode w.g s.toNat! (if args.isEmpty then [0] else args) } fixed
    | ["class", c] => IO.println "ok"; loop h (w.setCls c.toNat! { pyBases := if args.isEmpty then [0] else args }) fixed
    | ["inst", o] => IO.println "ok"; loop h (w.setInst o.toNat! { cls := args.head! }) fixed
    | ["add", c] => IO.println "ok"; loop h (classImplements FUEL w c.toNat! args) fixed
    | ["only", c] => IO.println "ok"; loop h (classImplementsOnly FUEL w c.toNat! args) fixed
    | ["first", c] => IO.println "ok"; loop h (classImplementsFirst FUEL w c.toNat! args.head!) fixed
    | ["dp", o] => IO.println "ok"; loop h (directlyProvides FUEL w o.toNat! args) fixed
    | ["also", o] => IO.println "ok"; loop h (alsoProvides FUEL w o.toNat! args) fixed
    | ["nl", o] =>
        let (w, err) := noLongerProvides FUEL w o.toNat! args.head!
        IO.println (if err then "ValueError" else "ok"); loop h w fixed
    | ["prov", o] =>
        let (w, s) := providedBy FUEL w o.toNat!
        IO.println (shw ((w.sro s).filter isIface)); loop h w fixed
    | ["impl", c] =>
        let (w, s) := implementedBy FUEL w c.toNat!
        IO.println (shw ((w.sro s).filter isIface)); loop h w fixed
    | ["plist", o] =>
        let (w, s) := providedBy FUEL w o.toNat!
        IO.println (shw (interfacesOf FUEL w s)); loop h w fixed
    | ["ilist", c] =>
        let (w, s) := implementedBy FUEL w c.toNat!
        IO.println (shw (interfacesOf FUEL w s)); loop h w fixed
    | ["add", c, _] => IO.println "ok"; loop h (classImplements FUEL w c.toNat! args) fixed
    | ["only", c, _] => IO.println "ok"; loop h (classImplementsOnly FUEL w c.toNat! args) fixed
    | ["direct", o] => IO.println (shw (directlyProvidedBy w o.toNat!)); loop h w fixed
    | _ => IO.println "bad"; loop h w fixed
  | _ => IO.println "bad"; loop h w fixed
def main (args : List String) : IO Unit := do
  let fixed := args.contains "fixed"
  loop (← IO.getStdin) (init fixed) fixed
end Drv.Classes
