import ZI.Classes
import ZI.Classes2
import ZI.Props.C01Hist
/-! Driver for the declarations layer (C01).  Three things run in lock step on every line:
* `ZI.Classes` — the executable model that the correspondence compares with the real code (its answers are printed);
* `ZI.Classes2` — the same logic on `ZI.Graph2`, the model the history theorems of `ZI/Props/C01Hist.lean` are about;
* the abstract specification state `ZI.C01.Spec` of those theorems (sets of interfaces, no graph, no caches).
A query line prints ` MODELDIFF2` after the answer if the two models disagree, and ` SPECDIFF` if the history so far is
well-formed in the sense of `C01_exact` (`WFop`, decided here) and the abstract answer (`implB` / `provB`) differs from the
model's — by `C01_exact` neither can happen; printing them makes the tie between the proved model and the compared one a
checked fact of every run, and `wf` lines report how much of the generated histories the theorem's guards admit. -/
namespace Drv.Classes
open ZI.Classes ZI.Graph
def nums (s : String) : List Nat := (s.splitOn " ").filterMap String.toNat?
def shw (l : List Nat) : String := " ".intercalate (l.map toString)
def FUEL := 64
/-- `Specification.interfaces()` / `Declaration.__iter__`: ordered dedupe of the interfaces of the bases -/
def interfacesOf : Nat → W → Nat → List Nat
  | 0, _, _ => []
  | f+1, w, s => if isIface s then [s] else dedupe ((w.g.get s).bases.flatMap (interfacesOf f w))

structure Sh where
  w2 : ZI.Classes2.W
  σ : ZI.C01.Spec
  wf : Bool                 -- every operation so far satisfied `WFop`
  nops : Nat := 0
  nwf : Nat := 0            -- operations issued while the history was still well-formed

def Sh.init (fixed : Bool) : Sh := { w2 := ZI.Classes2.init fixed, σ := ZI.C01.Spec.init, wf := fixed }
def Sh.step (sh : Sh) (op : ZI.C01.HOp) : Sh :=
  let ok := sh.wf && decide (ZI.C01.WFop sh.σ op)
  { w2 := ZI.C01.stepW FUEL sh.w2 op, σ := ZI.C01.specStep sh.σ op, wf := ok, nops := sh.nops + 1, nwf := sh.nwf + (if ok then 1 else 0) }

/-- compare the interfaces of a cached order with the shadow model and (under well-formedness) with the abstract oracle -/
def flags (ans2 : List Nat) (ans : List Nat) (sh : Sh) (specAns : Nat → Bool) : String :=
  (if ans2 != ans then " MODELDIFF2" else "") ++
  (if sh.wf && (sh.σ.ifaces.any fun i => specAns i != ans.contains i) then " SPECDIFF" else "") ++
  (if sh.wf && (ans.any fun i => !(sh.σ.ifaces.contains i)) then " SPECDIFF" else "")

partial def loop (h : IO.FS.Stream) (w : W) (sh : Sh) (fixed : Bool) : IO Unit := do
  let line ← h.getLine
  if line.isEmpty then return ()
  match line.trimAscii.toString.splitOn ":" with
  | [cmd, rest] =>
    let args := nums rest
    match (cmd.splitOn " ").filter (· != "") with
    | ["reset"] => IO.println "ok"; loop h (init fixed) (Sh.init fixed) fixed
    | ["iface", s] =>
        let bs := if args.isEmpty then [0] else args
        IO.println "ok"; loop h { w with g := newNode w.g s.toNat! bs } (sh.step (.iface s.toNat! bs)) fixed
    | ["class", c] =>
        let bs := if args.isEmpty then [0] else args
        IO.println "ok"; loop h (w.setCls c.toNat! { pyBases := bs }) (sh.step (.cls c.toNat! bs)) fixed
    | ["inst", o] => IO.println "ok"; loop h (w.setInst o.toNat! { cls := args.head! }) (sh.step (.inst o.toNat! args.head!)) fixed
    | ["add", c] => IO.println "ok"; loop h (classImplements FUEL w c.toNat! args) (sh.step (.classImplements c.toNat! args)) fixed
    | ["only", c] => IO.println "ok"; loop h (classImplementsOnly FUEL w c.toNat! args) (sh.step (.classImplementsOnly c.toNat! args)) fixed
    | ["first", c] => IO.println "ok"; loop h (classImplementsFirst FUEL w c.toNat! args.head!) (sh.step (.classImplementsFirst c.toNat! args.head!)) fixed
    | ["cprov", _] => IO.println "ok"; loop h w sh fixed          -- what a CLASS OBJECT provides: no effect on implementedBy / instances (judged on the real objects)
    | ["cprov", _, _] => IO.println "ok"; loop h w sh fixed
    | ["mprov", _] => IO.println "ok"; loop h w sh fixed          -- a declaration for the METACLASS: what class objects provide (judged on the real objects)
    | ["mprov", _, _] => IO.println "ok"; loop h w sh fixed
    | ["dp", o, _] => IO.println "ok"; loop h (directlyProvides FUEL w o.toNat! args) (sh.step (.directlyProvides o.toNat! args)) fixed      -- spelled `provider(...)(ob)`
    | ["dp", o] => IO.println "ok"; loop h (directlyProvides FUEL w o.toNat! args) (sh.step (.directlyProvides o.toNat! args)) fixed
    | ["also", o] => IO.println "ok"; loop h (alsoProvides FUEL w o.toNat! args) (sh.step (.alsoProvides o.toNat! args)) fixed
    | ["nl", o] =>
        let (w, err) := noLongerProvides FUEL w o.toNat! args.head!
        let err2 := (ZI.Classes2.noLongerProvides FUEL sh.w2 o.toNat! args.head!).2
        IO.println ((if err then "ValueError" else "ok") ++ (if err != err2 then " MODELDIFF2" else ""))
        loop h w (sh.step (.noLongerProvides o.toNat! args.head!)) fixed
    | ["prov", o] =>
        let (w, s) := providedBy FUEL w o.toNat!
        let sh := sh.step (.qProv o.toNat!)
        let r2 := ZI.Classes2.providedBy FUEL sh.w2 o.toNat!
        let ans := (w.sro s).filter isIface
        IO.println (shw ans ++ flags ((r2.1.sro r2.2).filter isIface) ans sh (ZI.C01.provB sh.σ o.toNat!)); loop h w sh fixed
    | ["impl", c] =>
        let (w, s) := implementedBy FUEL w c.toNat!
        let sh := sh.step (.qImpl c.toNat!)
        let r2 := ZI.Classes2.implementedBy FUEL sh.w2 c.toNat!
        let ans := (w.sro s).filter isIface
        IO.println (shw ans ++ flags ((r2.1.sro r2.2).filter isIface) ans sh (ZI.C01.implB sh.σ c.toNat!)); loop h w sh fixed
    | ["plist", o] =>
        let (w, s) := providedBy FUEL w o.toNat!
        IO.println (shw (interfacesOf FUEL w s)); loop h w (sh.step (.qProv o.toNat!)) fixed
    | ["ilist", c] =>
        let (w, s) := implementedBy FUEL w c.toNat!
        IO.println (shw (interfacesOf FUEL w s)); loop h w (sh.step (.qImpl c.toNat!)) fixed
    | ["add", c, _] => IO.println "ok"; loop h (classImplements FUEL w c.toNat! args) (sh.step (.classImplements c.toNat! args)) fixed
    | ["only", c, _] => IO.println "ok"; loop h (classImplementsOnly FUEL w c.toNat! args) (sh.step (.classImplementsOnly c.toNat! args)) fixed
    | ["direct", o] =>
        let d := directlyProvidedBy w o.toNat!
        IO.println (shw d ++ (if ZI.Classes2.directlyProvidedBy sh.w2 o.toNat! != d then " MODELDIFF2" else "")); loop h w sh fixed
    | ["wf"] => IO.println s!"wf {sh.wf} {sh.nwf} {sh.nops}"; loop h w sh fixed
    | _ => IO.println "bad"; loop h w sh fixed
  | _ => IO.println "bad"; loop h w sh fixed
def main (args : List String) : IO Unit := do
  let fixed := args.contains "fixed"
  loop (← IO.getStdin) (init fixed) (Sh.init fixed) fixed
end Drv.Classes
