import ZI.DeclModel
/-! Driver for the declaration-algebra layer (C20).  World lines: `iface <i> : <bases>`, `class <c> <only 0/1> : <py bases> | <declared ifaces>`;
    declarations: `decl <name> = <tree>` with tree tokens `i3` `c2` `(` `)` `[` `]` `D(`; queries `iter A`, `mem A <i>`,
    `sub A B`, `add A B` (A, B names; `add A i3` adds a bare interface); `flat A`, `flat c2`, `flat A + B`, `flat A - B`: the interfaces of
    `X.flattened()` in the order yielded (0 = `Interface`). -/
namespace Drv.Decl
open ZI.Decl
structure Cls where
  pyBases : List Nat
  declared : List Nat
  only : Bool
structure St where
  ibases : List (Nat × List Nat) := []
  classes : List (Nat × Cls) := []
  decls : List (String × List Arg) := []

def St.bases (s : St) (i : Nat) : List Nat := ((s.ibases.find? (·.1 == i)).map (·.2)).getD []
/-- reflexive-transitive reachability over the interface bases (fuel = number of interfaces + 1) -/
def reach (s : St) : Nat → Nat → Nat → Bool
  | 0, i, j => i == j
  | f+1, i, j => i == j || (s.bases i).any fun b => reach s f b j
/-- `i.isOrExtends(j)`: everything extends the root `Interface` (node 0) -/
def St.ext (s : St) (i j : Nat) : Bool := j == 0 || reach s (s.ibases.length + 1) i j
/-- interfaces of `implementedBy(c)`: declared, then (unless an *only* form cut it) those of the Python bases -/
def expandCls (s : St) : Nat → Nat → List Nat
  | 0, _ => []
  | f+1, c =>
    match (s.classes.find? (·.1 == c)).map (·.2) with
    | none => []
    | some k => dedupe [] (k.declared ++ (if k.only then [] else k.pyBases.flatMap (expandCls s f)))
def St.ex (s : St) : Expand := fun c => expandCls s (s.classes.length + 1) c

partial def parse : List String → List Arg → List Arg × List String
  | [], acc => (acc, [])
  | t :: rest, acc =>
    if t == ")" || t == "]" then (acc, rest)
    else if t == "(" || t == "[" || t == "G(" then
      let (inner, rest') := parse rest []
      parse rest' (acc ++ [Arg.seq inner])
    else if t == "D(" then
      let (inner, rest') := parse rest []
      parse rest' (acc ++ [Arg.decl inner])
    else if t.startsWith "i" then parse rest (acc ++ [Arg.iface ((t.drop 1).toString.toNat!)])
    else if t.startsWith "c" then parse rest (acc ++ [Arg.impl ((t.drop 1).toString.toNat!)])
    else parse rest acc

def nums (s : String) : List Nat := (s.splitOn " ").filterMap String.toNat?
def shw (l : List Nat) : String := " ".intercalate (l.map toString)
def St.iter (s : St) (n : String) : List Nat :=
  if n.startsWith "i" && (n.drop 1).toString.toNat?.isSome then [(n.drop 1).toString.toNat!]
  else if n.startsWith "c" && (n.drop 1).toString.toNat?.isSome then s.ex (n.drop 1).toString.toNat!
  else iterDecl s.ex (((s.decls.find? (·.1 == n)).map (·.2)).getD [])

/-! ### the specification graph for `flattened()`: interface `i` is node `i` (0 = `Interface`), `implementedBy(object)` is node 1000,
the class specification of class `c` node `1000 + c`, the declaration asked about node 2000 -/
def objNode : Nat := 1000
def clsNode (c : Nat) : Nat := 1000 + c
def declNode : Nat := 2000
def atomNode : Atom → Nat
  | .iface i => i
  | .impl c => clsNode c
/-- `__bases__` of every specification; `top` = the bases of the declaration asked about -/
def St.specBases (s : St) (top : List Nat) (x : Nat) : List Nat :=
  if x == declNode then top
  else if x == 0 || x == objNode then []
  else if x > objNode then
    match (s.classes.find? (·.1 == x - objNode)).map (·.2) with
    | none => []
    | some k => k.declared ++ (if k.only then [] else if k.pyBases.isEmpty then [objNode] else k.pyBases.map clsNode)
  else if (s.bases x).isEmpty then [0] else s.bases x
def St.flat (s : St) (top : List Nat) (node : Nat) : List Nat :=
  flattened (s.specBases top) 0 (· < objNode) (s.ibases.length + s.classes.length + 4) node
/-- the `__bases__` of a named operand: the normalised arguments, kept as they are (no de-duplication) -/
def St.atoms (s : St) (n : String) : List Nat :=
  if n.startsWith "i" && (n.drop 1).toString.toNat?.isSome then [(n.drop 1).toString.toNat!]
  else (normalizeList s.ex (((s.decls.find? (·.1 == n)).map (·.2)).getD [])).map atomNode

partial def loop (h : IO.FS.Stream) (s : St) : IO Unit := do
  let line ← h.getLine
  if line.isEmpty then return ()
  let toks := (line.trimAscii.toString.splitOn " ").filter (· != "")
  match toks with
  | ["reset"] => IO.println "ok"; loop h {}
  | "iface" :: i :: ":" :: bs => IO.println "ok"; loop h { s with ibases := s.ibases ++ [(i.toNat!, bs.filterMap String.toNat?)] }
  | "class" :: c :: o :: ":" :: rest =>
      let pre := rest.takeWhile (· != "|")
      let post := (rest.dropWhile (· != "|")).drop 1
      IO.println "ok"
      loop h { s with classes := s.classes ++ [(c.toNat!, ⟨pre.filterMap String.toNat?, post.filterMap String.toNat?, o == "1"⟩)] }
  | "cimpl" :: c :: ":" :: ds =>
      -- a later `classImplements(C, …)`: appended to what the class declares itself (the generator names nothing the class already implies)
      IO.println "ok"
      loop h { s with classes := s.classes.map fun e =>
        if e.1 == c.toNat! then (e.1, { e.2 with declared := e.2.declared ++ ds.filterMap String.toNat? }) else e }
  | "decl" :: n :: "=" :: tree =>
      let (args, _) := parse tree []
      IO.println "ok"; loop h { s with decls := (s.decls.filter (·.1 != n)) ++ [(n, args)] }
  | "dpby" :: "=" :: tree =>            -- directlyProvides(plain object, …) then directlyProvidedBy: the arguments as a declaration, less `Interface`
      let (args, _) := parse tree []
      let s' : St := { s with decls := (s.decls.filter (fun (e : String × List Arg) => e.1 != "#dp")) ++ [("#dp", args)] }
      IO.println (shw ((s'.iter "#dp").filter (· != 0))); loop h s
  | ["iter", a] => IO.println (shw (s.iter a)); loop h s
  | ["memall", a] => IO.println (shw ((s.iter a).toArray.qsort (· < ·)).toList); loop h s
  | ["mem", a, i] => IO.println (if (s.iter a).contains i.toNat! then "1" else "0"); loop h s
  | ["flat", a] =>
      if a.startsWith "c" && (a.drop 1).toString.toNat?.isSome then IO.println (shw (s.flat [] (clsNode (a.drop 1).toString.toNat!)))
      else IO.println (shw (s.flat (s.atoms a) declNode))
      loop h s
  | ["flat", a, "+", b] => IO.println (shw (s.flat (add s.ext (s.iter a) (s.iter b)) declNode)); loop h s
  | ["flat", a, "-", b] => IO.println (shw (s.flat (sub s.ext (s.iter a) (s.iter b)) declNode)); loop h s
  | ["sub", a, b] => IO.println (shw (sub s.ext (s.iter a) (s.iter b))); loop h s
  | ["add", a, b] => IO.println (shw (add s.ext (s.iter a) (s.iter b))); loop h s
  | _ => IO.println "bad"; loop h s
def main : IO Unit := do loop (← IO.getStdin) {}
end Drv.Decl
