import ZI.OrderOps
/-! Driver for the comparison layer (C12): `def` lines introduce operands, `cmp`/`heq`/`sort` lines are answered by
    the model of the selected twin (`c` = IB_richcompare for interfaces, `py` = the Python reference).
    `def id I name module` is the docless constructor call, `def id D name module` the one with a docstring (both answer
    the final `__name__`), `def id W target` a transparent proxy of an interface, `def id S eq ord` a constant-answer
    sentinel; `cmpx` lines are comparisons the generator holds to be outside the property's domain (the model agrees or
    says `bad`). -/
namespace Drv.Order
open ZI.Order

def decodeStr (s : String) : String :=
  if s == "-" then "" else String.ofList ((s.splitOn ",").filterMap fun t => t.toNat?.map Char.ofNat)

def encodeStr (s : String) : String :=
  if s.isEmpty then "-" else ",".intercalate (s.toList.map fun c => toString c.toNat)

def nameReport (x : Operand) : String :=
  match x with
  | .iface _ k => "ok name=" ++ encodeStr k.1
  | .anon _ _ => "ok name=None"
  | _ => "ok"

def parseOp : String → Option Cmp
  | "lt" => some .lt | "le" => some .le | "gt" => some .gt | "ge" => some .ge | "eq" => some .eq | "ne" => some .ne
  | _ => none

abbrev Env := List (String × Operand)
def Env.get (e : Env) (k : String) : Option Operand :=
  if k == "N" then some .none else (e.find? (·.1 == k)).map (·.2)

def nameOf (e : Env) (x : Operand) : String :=
  if x == .none then "N" else ((e.find? (·.2 == x)).map (·.1)).getD "?"

partial def loop (h : IO.FS.Stream) (e : Env) (method : Cmp → Operand → Operand → Option Bool) : IO Unit := do
  let line ← h.getLine
  if line.isEmpty then return ()
  match (line.trimAscii.toString.splitOn " ").filter (· != "") with
  | ["reset"] => IO.println "ok"; loop h [] method
  | ["def", id, "I", n, m] =>
      let x := mkIface id.toNat! (decodeStr n) (decodeStr m) false
      IO.println (nameReport x); loop h (e ++ [(id, x)]) method
  | ["def", id, "D", n, m] =>
      let x := mkIface id.toNat! (decodeStr n) (decodeStr m) true
      IO.println (nameReport x); loop h (e ++ [(id, x)]) method
  | ["def", id, "W", t] =>
      match e.get t with
      | some (.iface tid k) => IO.println "ok"; loop h (e ++ [(id, .wrap id.toNat! tid k)]) method
      | _ => IO.println "bad"; loop h e method
  | ["def", id, "S", ev, ov] =>
      let o : Option Bool := if ov == "1" then some true else if ov == "0" then some false else Option.none
      IO.println "ok"; loop h (e ++ [(id, .sentinel id.toNat! (ev == "1") o)]) method
  | ["def", id, "M", n, m] =>
      -- implementedBy(cls): __name__ = cls.__module__ + '.' + cls.__name__, __module__ = the class attribute of Implements
      IO.println "ok"
      loop h (e ++ [(id, .impl id.toNat! (implementsKey (decodeStr n) (decodeStr m)))]) method
  | ["def", id, "F", n, m] => IO.println "ok"; loop h (e ++ [(id, .foreign id.toNat! (decodeStr n, decodeStr m))]) method
  | ["def", id, "P"] => IO.println "ok"; loop h (e ++ [(id, .plain id.toNat!)]) method
  | ["cmp", op, a, b] =>
      match parseOp op, e.get a, e.get b with
      | some op, some x, some y =>
        IO.println (if outside x y then "outside" else
          match binop method op x y with | .bool true => "1" | .bool false => "0" | .typeError => "TypeError")
      | _, _, _ => IO.println "bad"
      loop h e method
  | ["cmpx", _, a, b] =>
      match e.get a, e.get b with
      | some x, some y => IO.println (if outside x y then "outside" else "bad")
      | _, _ => IO.println "bad"
      loop h e method
  | ["heq", a, b] =>
      match e.get a, e.get b with
      | some x, some y => IO.println (if outside x y then "outside" else if hashOf x == hashOf y then "1" else "0")
      | _, _ => IO.println "bad"
      loop h e method
  | "sort" :: ids =>
      let xs := ids.filterMap e.get
      IO.println (" ".intercalate ((sortModel (ltB method) xs).map (nameOf e)))
      loop h e method
  | _ => IO.println "bad"; loop h e method

def main (args : List String) : IO Unit := do
  loop (← IO.getStdin) [] (if args.contains "c" then methodC else methodPy)
end Drv.Order
