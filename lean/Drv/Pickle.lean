import ZI.Classes
import ZI.PickleModel
/-! Driver for the pickling layer (C13): the declarations world of `Drv.Classes` plus the per-class state that
`Implements.__reduce__` reads; `rimpl c` = the class named by the reduction of `implementedBy(c)`, `rprov o` = the
constructor arguments `o.__provides__` reduces to. -/
namespace Drv.Pickle
open ZI.Classes ZI.Graph
def nums (s : String) : List Nat := (s.splitOn " ").filterMap String.toNat?
def shw (l : List Nat) : String := " ".intercalate (l.map toString)
def FUEL := 64
structure St where
  w : W
  p : ZI.Pickle.W := fun _ => none
/-- every class specification the declarations world has created exists in the pickling state too -/
def sync (s : St) : St :=
  { s with p := s.w.classes.foldl (fun p k => if k.2.spec.isSome then ZI.Pickle.step true p (.implementedBy k.1) else p) s.p }
partial def loop (h : IO.FS.Stream) (s : St) : IO Unit := do
  let line ← h.getLine
  if line.isEmpty then return ()
  let s := sync s
  let w := s.w
  match line.trimAscii.toString.splitOn ":" with
  | [cmd, rest] =>
    let args := nums rest
    match (cmd.splitOn " ").filter (· != "") with
    | ["reset"] => IO.println "ok"; loop h { w := init true }
    | ["iface", i] => IO.println "ok"; loop h { s with w := { w with g := newNode w.g i.toNat! (if args.isEmpty then [0] else args) } }
    | ["class", c] => IO.println "ok"; loop h { s with w := w.setCls c.toNat! { pyBases := if args.isEmpty then [0] else args } }
    | ["inst", o] => IO.println "ok"; loop h { s with w := w.setInst o.toNat! { cls := args.head! } }
    | ["add", c] => IO.println "ok"; loop h { w := classImplements FUEL w c.toNat! args, p := ZI.Pickle.step true s.p (.classImplements c.toNat!) }
    | ["add", c, _] => IO.println "ok"; loop h { w := classImplements FUEL w c.toNat! args, p := ZI.Pickle.step true s.p (.classImplements c.toNat!) }
    | ["only", c, _] => IO.println "ok"; loop h { w := classImplementsOnly FUEL w c.toNat! args, p := ZI.Pickle.step true s.p (.classImplementsOnly c.toNat!) }
    | ["first", c] => IO.println "ok"; loop h { w := classImplementsFirst FUEL w c.toNat! args.head!, p := ZI.Pickle.step true s.p (.classImplements c.toNat!) }
    | ["only", c] => IO.println "ok"; loop h { w := classImplementsOnly FUEL w c.toNat! args, p := ZI.Pickle.step true s.p (.classImplementsOnly c.toNat!) }
    | ["dp", o] => IO.println "ok"; loop h { s with w := directlyProvides FUEL w o.toNat! args }
    | ["also", o] => IO.println "ok"; loop h { s with w := alsoProvides FUEL w o.toNat! args }
    | ["nl", o] =>
        let (w, err) := noLongerProvides FUEL w o.toNat! args.head!
        IO.println (if err then "ValueError" else "ok"); loop h { s with w := w }
    | ["rimpl", c] =>
        let (w, _) := implementedBy FUEL w c.toNat!
        let s := sync { s with w := w }
        IO.println (match (s.p c.toNat!).map (ZI.Pickle.reduce true) with
          | some (some k) => s!"cls {k}" | some none => "cls None" | none => "nospec")
        loop h s
    | ["rprov", o] =>
        match (w.inst o.toNat!).prov with
        | none => IO.println "none"
        | some p =>
          match w.pcache.find? (·.2 == p) with
          | some e => IO.println s!"cls {e.1.1} ifaces {shw e.1.2}"
          | none => IO.println "uncached"
        loop h s
    | _ => IO.println "bad"; loop h s
  | _ => IO.println "bad"; loop h s
def main : IO Unit := do loop (← IO.getStdin) { w := init true }
end Drv.Pickle
