import ZI.VerifyModel
/-! Driver for the verification layer (C17): `verify|<c or o>|<tentative>|<declared>|<elem>;<elem>…` with
    elem = `name:desc:cand`, desc `A` or `M r.o.v.k`, cand `X` missing, `F r.o.v.k` / `G r.o.v.k` introspectable function
    (signature after self-stripping), `B` opaque callable, `N` non-callable, `P` property. -/
namespace Drv.Verify
open ZI.Verify
def sig (s : String) : Sig :=
  match (s.splitOn ".").map String.toNat! with
  | [r, o, v, k] => ⟨r, o, v == 1, k == 1⟩
  | _ => ⟨0, 0, false, false⟩
def elem (s : String) : Option Elem :=
  match s.splitOn ":" with
  | [n, d, c] =>
    let desc := if d == "A" then Desc.attr else Desc.method (sig (d.drop 1).toString)
    let cand := if c == "X" then Cand.missing else if c == "B" then .opaqueCallable else if c == "N" then .nonCallable
      else if c == "P" then .propertyObj else .func (sig (c.drop 1).toString)
    some ⟨n.toNat!, desc, cand⟩
  | _ => none
def code (m : String) : String :=
  if m == "implementation requires too many arguments" then "many"
  else if m == "implementation doesn't allow enough arguments" then "few"
  else if m == "implementation doesn't support keyword arguments" then "kw"
  else if m == "implementation doesn't support variable arguments" then "var"
  else "notmethod"
def shwF : Failure → String
  | .doesNotImplement => "DNI"
  | .brokenImplementation n => s!"BI:{n}"
  | .brokenMethod n m => s!"BM:{n}:{code m}"
partial def loop (h : IO.FS.Stream) : IO Unit := do
  let line ← h.getLine
  if line.isEmpty then return ()
  match line.trimAscii.toString.splitOn "|" with
  | ["verify", vt, t, d, es] =>
    let elems := ((es.splitOn ";").filter (· != "")).filterMap elem
    match verify (vt == "c") (t == "1") (d == "1") elems with
    | .ok => IO.println "ok"
    | .single f => IO.println s!"single {shwF f}"
    | .multiple fs => IO.println s!"multi {" ".intercalate (fs.map shwF)}"
  | _ => IO.println "bad"
  loop h
def main : IO Unit := do loop (← IO.getStdin)
end Drv.Verify
