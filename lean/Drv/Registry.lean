import ZI.Registry
import ZI.LookupTwin
import ZI.Graph2
/-! Driver for the adapter-registry layer (C04, C06, C07, C08, C09) over a specification graph that only grows. -/
namespace Drv.Registry
open ZI.Registry
def nums (s : String) : List Nat := (s.splitOn " ").filterMap String.toNat?
def opts (s : String) : List (Option Nat) := ((s.splitOn " ").filter (· != "")).map fun t => if t == "N" then none else t.toNat?
def opt1 (s : String) : Option Nat := if s.trimAscii.toString == "N" then none else s.trimAscii.toString.toNat?
def val (s : String) : Option Val := match nums s with | [i, e] => some ⟨i, e⟩ | _ => none
def shwV (o : Option Val) : String := match o with | some v => toString v.ident | none => "N"
def shwK (k : Option Nat) : String := match k with | some v => toString v | none => "N"
def FUEL := 32
def sortS (l : List String) : List String := (l.toArray.qsort (· < ·)).toList

structure St where
  w : World
  g : ZI.Graph2.G
  kinds : List (Nat × Bool)
  objs : List (Nat × Nat)          -- object ↦ the specification `providedBy` returns for it

def St.isI (s : St) (x : Nat) : Bool := ((s.kinds.find? (·.1 == x)).map (·.2)).getD true
def St.sync (s : St) : St :=
  { s with w := { s.w with sro := s.g.sro, iro := fun i => (s.g.sro i).filter s.isI } }
def St.spec (s : St) (o : Nat) : Nat := ((s.objs.find? (·.1 == o)).map (·.2)).getD 0
def fresh (verifying : Bool) : St :=
  ({ w := { sro := fun i => [i, 0], iro := fun i => [i, 0], regs := [], verifying := verifying },
     g := ZI.Graph2.init 0, kinds := [(0, true)], objs := [] } : St).sync

/-- a factory returns `None` when its ident is divisible by 4 (a convention shared with the executor) -/
def retNone (v : Val) : Bool := v.ident % 4 == 0
def badName (n : String) : Bool := n.startsWith "#"

/-- the state the twin models of the lookup entry points (`ZI.LookupTwin`: the C composition and the Python composition, proved
equal) see: the caches and the uncached answers of registry `r` after its generation check -/
def twinState (w : World) (r : Nat) : ZI.LookupTwin.St :=
  let w' := verify w r
  let x := w'.reg r
  { cache := fun p n k => (AList.get? x.cache (p, n, k)).map (·.map (·.ident)),
    uncached := fun k p n => (uncachedLookup w' r k p n).map (·.ident),
    factoryNone := fun v => v % 4 == 0, stale := false, verifying := false }
def twinName (n : String) : ZI.LookupTwin.Name := if badName n then .other (n != "#0" && n != "#N" && n != "#F" && n != "#b" && n != "#t" && n != "#f" && n != "#fs") else .str n
def shwOut : ZI.LookupTwin.Out → String
  | .valueError => "err ValueError" | .default => "default" | .none => "N" | .val v => toString v | .obj => "res"
/-- lock step: both twin compositions must say what the registry model says (`TWINDIFF` breaks the correspondence) -/
def twinCheck (model : String) (c py : ZI.LookupTwin.Out) : String :=
  let ok := fun (o : ZI.LookupTwin.Out) => shwOut o == model || (o == .obj && model.startsWith "res ")
  if ok c && ok py then model else model ++ s!" TWINDIFF c={shwOut c} py={shwOut py}"

partial def loop (h : IO.FS.Stream) (s : St) : IO Unit := do
  let line ← h.getLine
  if line.isEmpty then return ()
  let f := (line.dropEndWhile (· == '\n')).toString.splitOn "|"
  let w := s.w
  let upd (w : World) : St := { s with w := w }
  match f with
  | ["reset", v] => IO.println "ok"; loop h (fresh (v == "1"))
  | ["iface", i, bs] =>
      let g := ZI.Graph2.newNode s.g i.toNat! (if (nums bs).isEmpty then [0] else nums bs)
      IO.println "ok"; loop h ({ s with g := g, kinds := s.kinds ++ [(i.toNat!, true)] }).sync
  | ["decl", i, bs] =>
      let g := ZI.Graph2.newNode s.g i.toNat! (nums bs)
      IO.println "ok"; loop h ({ s with g := g, kinds := s.kinds ++ [(i.toNat!, false)] }).sync
  | ["obj", o, sp] => IO.println "ok"; loop h { s with objs := s.objs ++ [(o.toNat!, sp.toNat!)] }
  | ["newreg", r, bs] => IO.println "ok"; loop h (upd (setBases FUEL (w.setReg r.toNat! {}) r.toNat! (nums bs)))
  | ["rbases", r, bs] => IO.println "ok"; loop h (upd (setBases FUEL w r.toNat! (nums bs)))
  | ["reg", r, req, p, name, v] =>
      IO.println "ok"
      match val v with
      | some vv => loop h (upd (register FUEL w r.toNat! (opts req) p.toNat! name vv))
      | none => loop h (upd (unregister FUEL w r.toNat! (opts req) p.toNat! name none))     -- register(None) unregisters
  | ["unreg", r, req, p, name, v] =>
      IO.println "ok"; loop h (upd (unregister FUEL w r.toNat! (opts req) p.toNat! name (val v)))
  | ["sub", r, req, p, v] => IO.println "ok"; loop h (upd (subscribe FUEL w r.toNat! (opts req) (opt1 p) (val v).get!))
  | ["unsub", r, req, p, v] => IO.println "ok"; loop h (upd (unsubscribe FUEL w r.toNat! (opts req) (opt1 p) (val v)))
  | ["rebuild", r] => IO.println "ok"; loop h (upd (rebuild FUEL w r.toNat!))
  | ["relookup", r] => IO.println "ok"; loop h (upd (relookup w r.toNat!))
  | ["lookup", r, req, p, name] =>
      let ts := twinState w r.toNat!
      let tc := (ZI.LookupTwin.lookupC ts (nums req) p.toNat! (twinName name) false).2
      let tp := (ZI.LookupTwin.lookupPy ts (nums req) p.toNat! (twinName name) false).2
      if badName name then IO.println (twinCheck "err ValueError" tc tp); loop h s else
      let (w, a) := lookup w r.toNat! (nums req) p.toNat! name
      IO.println (twinCheck (shwV a) tc tp); loop h (upd w)
  | ["lookup1", r, req, p, name] =>
      let ts := twinState w r.toNat!
      let tc := (ZI.LookupTwin.lookup1C ts (nums req).head! p.toNat! (twinName name) false).2
      let tp := (ZI.LookupTwin.lookup1Py ts (nums req).head! p.toNat! (twinName name) false).2
      if badName name then IO.println (twinCheck "err ValueError" tc tp); loop h s else
      let (w, a) := lookup w r.toNat! (nums req) p.toNat! name
      IO.println (twinCheck (shwV a) tc tp); loop h (upd w)
  | ["lookupAll", r, req, p] =>
      let (w, a) := lookupAll w r.toNat! (nums req) p.toNat!
      IO.println (" ".intercalate (sortS (a.map fun p => s!"{p.1}={p.2.ident}"))); loop h (upd w)
  | ["names", r, req, p] =>
      let (w, a) := lookupAll w r.toNat! (nums req) p.toNat!
      IO.println (" ".intercalate (sortS (a.map fun p => s!"{p.1}"))); loop h (upd w)
  | ["subs", r, req, p] =>
      let (w, a) := subscriptions w r.toNat! (nums req) (opt1 p)
      IO.println (" ".intercalate (a.map fun v => toString v.ident)); loop h (upd w)
  | ["clone", r, r2] =>
      let x := w.reg r.toNat!
      let w := setBases FUEL (w.setReg r2.toNat! {}) r2.toNat! x.bases
      let w := (allRegistrations x).foldl (fun w e => register FUEL w r2.toNat! e.1 (e.2.1.getD 0) e.2.2.1 e.2.2.2) w
      let w := (allSubscriptions x).foldl (fun w e => subscribe FUEL w r2.toNat! e.1 e.2.1 e.2.2) w
      IO.println "ok"; loop h (upd w)
  | ["qadapter", r, os, p, name, via] =>       -- queryAdapter / adapter_hook / queryMultiAdapter on objects
      let objs := nums os
      let single := via != "m" && objs.length == 1
      let ts := twinState w r.toNat!
      let tc := (ZI.LookupTwin.adapterHookC ts (objs.map s.spec).head! p.toNat! (twinName name) true).2
      let tp := (ZI.LookupTwin.adapterHookPy ts (objs.map s.spec).head! p.toNat! (twinName name) true).2
      let chk := fun (m : String) => if single then twinCheck m tc tp else m
      if badName name then IO.println (chk "err ValueError"); loop h s else
      let (w, a) := lookup w r.toNat! (objs.map s.spec) p.toNat! name
      let out := match a with
        | some v => if retNone v then "default" else s!"res {v.ident} {os}"
        | none => "default"
      IO.println (chk out); loop h (upd w)
  | ["subscribers", r, os, p] =>
      let objs := nums os
      let (w, a) := subscriptions w r.toNat! (objs.map s.spec) (opt1 p)
      let out := if (opt1 p).isNone then "" else " ".intercalate ((a.filter fun v => !retNone v).map fun v => toString v.ident)
      IO.println out; loop h (upd w)
  | ["registered", r, req, p, name] => IO.println (shwV (registered w r.toNat! (opts req) p.toNat! name)); loop h s
  | ["subscribed", r, req, p, v] => IO.println (shwV (subscribed w r.toNat! (opts req) (opt1 p) (val v).get!)); loop h s
  | ["allreg", r] =>
      let es := allRegistrations (w.reg r.toNat!)
      let strs := es.map fun e => "[" ++ " ".intercalate (e.1.map shwK) ++ "/" ++ shwK e.2.1 ++ "/" ++ e.2.2.1 ++ "=" ++ toString e.2.2.2.ident ++ "]"
      IO.println (" ".intercalate (sortS strs))
      loop h s
  | ["allsub", r] =>
      let es := allSubscriptions (w.reg r.toNat!)
      let strs := es.map fun e => "[" ++ " ".intercalate (e.1.map shwK) ++ "/" ++ shwK e.2.1 ++ "=" ++ toString e.2.2.ident ++ "]"
      IO.println (" ".intercalate (sortS strs))
      loop h s
  | ["ro", r] =>
      -- the verifying flavour refreshes `ro` lazily, on the next lookup: observe it after a (harmless) lookupAll
      let (w, _) := lookupAll w r.toNat! [] 0
      IO.println (" ".intercalate ((w.reg r.toNat!).ro.map toString)); loop h (upd w)
  | _ => IO.println s!"bad {f}"; loop h s
def main : IO Unit := do loop (← IO.getStdin) (fresh false)
end Drv.Registry
