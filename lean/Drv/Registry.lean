import ZI.Registry
namespace Drv.Registry
open ZI.Registry
def nums (s : String) : List Nat := (s.splitOn " ").filterMap String.toNat?
def opts (s : String) : List (Option Nat) := ((s.splitOn " ").filter (· != "")).map fun t => if t == "N" then none else t.toNat?
def opt1 (s : String) : Option Nat := if s.trimAscii.toString == "N" then none else s.trimAscii.toString.toNat?
def val (s : String) : Option Val := match nums s with | [i, e] => some ⟨i, e⟩ | _ => none
def shwV (o : Option Val) : String := match o with | some v => toString v.ident | none => "N"
def FUEL := 32
partial def loop (h : IO.FS.Stream) (w : World) (sros : List (Nat × List Nat)) : IO Unit := do
  let line ← h.getLine
  if line.isEmpty then return ()
  let f := (line.trimAscii.toString.splitOn "|").map fun s => s.trimAscii.toString
  let mk (sros : List (Nat × List Nat)) (verifying : Bool) : World :=
    let sro := fun i => ((sros.find? (·.1 == i)).map (·.2)).getD [i, 0]
    { sro := sro, iro := sro, regs := [], verifying := verifying }
  match f with
  | ["reset", v] => IO.println "ok"; loop h (mk [] (v == "1")) []
  | ["sro", i, l] =>
      let sros := sros ++ [(i.toNat!, nums l)]
      IO.println "ok"; loop h { mk sros w.verifying with regs := w.regs } sros
  | ["newreg", r, bs] => IO.println "ok"; loop h (setBases FUEL (w.setReg r.toNat! {}) r.toNat! (nums bs)) sros
  | ["rbases", r, bs] => IO.println "ok"; loop h (setBases FUEL w r.toNat! (nums bs)) sros
  | ["reg", r, req, p, name, v] =>
      IO.println "ok"; loop h (register FUEL w r.toNat! (opts req) p.toNat! name (val v).get!) sros
  | ["unreg", r, req, p, name, v] =>
      IO.println "ok"; loop h (unregister FUEL w r.toNat! (opts req) p.toNat! name (val v)) sros
  | ["sub", r, req, p, v] => IO.println "ok"; loop h (subscribe FUEL w r.toNat! (opts req) (opt1 p) (val v).get!) sros
  | ["unsub", r, req, p, v] => IO.println "ok"; loop h (unsubscribe FUEL w r.toNat! (opts req) (opt1 p) (val v)) sros
  | ["lookup", r, req, p, name] =>
      let (w, a) := lookup w r.toNat! (nums req) p.toNat! name
      IO.println (shwV a); loop h w sros
  | ["lookupAll", r, req, p] =>
      let (w, a) := lookupAll w r.toNat! (nums req) p.toNat!
      let srt := a.toArray.qsort (fun x y => x.1 < y.1) |>.toList
      IO.println (" ".intercalate (srt.map fun p => s!"{p.1}={p.2.ident}")); loop h w sros
  | ["subs", r, req, p] =>
      let (w, a) := subscriptions w r.toNat! (nums req) (opt1 p)
      IO.println (" ".intercalate (a.map fun v => toString v.ident)); loop h w sros
  | ["registered", r, req, p, name] => IO.println (shwV (registered w r.toNat! (opts req) p.toNat! name)); loop h w sros
  | ["ro", r] => IO.println (" ".intercalate ((w.reg r.toNat!).ro.map toString)); loop h w sros
  | _ => IO.println s!"bad {f}"; loop h w sros
def main : IO Unit := do
  loop (← IO.getStdin) { sro := fun i => [i, 0], iro := fun i => [i, 0], regs := [], verifying := false } []
end Drv.Registry
