import ZI.MethodModel
/-! Driver for the method-description layer (C18): `ff <imlevel> <argcount> <kwonly> <varargs 0/1> <kwargs 0/1> <defaults ,-sep or -> <varnames…>`
    answers with what `fromFunction` reports and the rendered signature string.  A default is `<id>` (an opaque value whose
    repr is its id) or `<id>:<hex>`: the value's id together with its `repr` (UTF-8, hex) — the `reprOf` the model's
    `sigString` is parametric in is then the real `repr` of the real default values, whatever kind of object they are. -/
namespace Drv.Method
open ZI.Method
def shwO : Option String → String | some s => s | none => "None"
def hexVal (c : Char) : Nat := if c.isDigit then c.toNat - 48 else if c.toNat ≥ 97 then c.toNat - 87 else c.toNat - 55
def unhexBytes : List Char → ByteArray → ByteArray
  | a :: b :: r, acc => unhexBytes r (acc.push (UInt8.ofNat (hexVal a * 16 + hexVal b)))
  | _, acc => acc
def unhex (s : String) : String := (String.fromUTF8? (unhexBytes s.toList .empty)).getD "<not UTF-8>"
/-- one default: its id and, if given, its repr -/
def parseDefault (s : String) : Nat × Option String :=
  match s.splitOn ":" with
  | [n, h] => (n.toNat!, some (unhex h))
  | _ => (s.toNat!, none)
/-- `reprOf`: the repr handed over with the id, else the id itself -/
def reprFrom (tbl : List (Nat × Option String)) (n : Nat) : String :=
  match tbl.find? (·.1 == n) with
  | some (_, some r) => r
  | _ => toString n
partial def loop (h : IO.FS.Stream) : IO Unit := do
  let line ← h.getLine
  if line.isEmpty then return ()
  match (line.trimAscii.toString.splitOn " ").filter (· != "") with
  | "ff" :: iml :: ac :: ko :: va :: kw :: ds :: names =>
    let tbl := if ds == "-" then [] else (ds.splitOn ",").map parseDefault
    let c : Code := ⟨ac.toNat!, ko.toNat!, names, va == "1", kw == "1", tbl.map (·.1)⟩
    let i := fromFunction c iml.toNat!
    let opt := ",".intercalate (i.optional.map fun p => s!"{p.1}={reprFrom tbl p.2}")
    IO.println s!"pos={",".intercalate i.positional} req={",".intercalate i.required} opt={opt} var={shwO i.varargs} kw={shwO i.kwargs} str={sigString (reprFrom tbl) i}"
  | _ => IO.println "bad"
  loop h
def main : IO Unit := do loop (← IO.getStdin)
end Drv.Method
