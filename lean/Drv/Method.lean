import ZI.MethodModel
/-! Driver for the method-description layer (C18): `ff <imlevel> <argcount> <kwonly> <varargs 0/1> <kwargs 0/1> <defaults ids ,-sep or -> <varnames…>`
    answers with what `fromFunction` reports and the rendered signature string. -/
namespace Drv.Method
open ZI.Method
def shwO : Option String → String | some s => s | none => "None"
partial def loop (h : IO.FS.Stream) : IO Unit := do
  let line ← h.getLine
  if line.isEmpty then return ()
  match (line.trimAscii.toString.splitOn " ").filter (· != "") with
  | "ff" :: iml :: ac :: ko :: va :: kw :: ds :: names =>
    let defaults := if ds == "-" then [] else (ds.splitOn ",").map String.toNat!
    let c : Code := ⟨ac.toNat!, ko.toNat!, names, va == "1", kw == "1", defaults⟩
    let i := fromFunction c iml.toNat!
    let opt := ",".intercalate (i.optional.map fun p => s!"{p.1}={p.2}")
    IO.println s!"pos={",".intercalate i.positional} req={",".intercalate i.required} opt={opt} var={shwO i.varargs} kw={shwO i.kwargs} str={sigString toString i}"
  | _ => IO.println "bad"
  loop h
def main : IO Unit := do loop (← IO.getStdin)
end Drv.Method
