import ZI.AttrsWorld
/-! Driver for the attribute layer (C15): `iface <i> <bases> <attrs n:d,…> <tags t:v,…> <invs k:f,…>` (`-` = empty),
    `set <i> <bases>`, `settag <i> <tag> <value>` (`setTaggedValue` on a live interface), `get <i> <name>`, `q <i>` (every accessor family, in a canonical rendering). -/
namespace Drv.Attrs
open ZI.AttrsW ZI.Upd ZI.Attrs ZI.Graph2
def lst (s : String) : List String := if s == "-" then [] else s.splitOn ","
def pairs (s : String) : List (String × Nat) := (lst s).filterMap fun e =>
  match e.splitOn ":" with | [a, b] => some (a, b.toNat!) | _ => none
def sortS (l : List String) : List String := (l.toArray.qsort (· < ·)).toList
def dedupS (l : List String) : List String := l.foldl (fun acc x => if acc.contains x then acc else acc ++ [x]) []
/-- `n:R` — the re-export idiom `x = Base["x"]`: the description the bases resolve the name to, listed again as a direct definition
    (dropped when the bases do not have the name); resolved on a scratch interface with the same bases -/
def attrsOf (w : W) (bases : List Nat) (s : String) : List (String × Nat) := (lst s).filterMap fun e =>
  match e.splitOn ":" with
  | [a, "R"] => (get (newIface w 999999 bases [] [] []) 999999 a).2.map fun d => (a, d)
  | [a, b] => some (a, b.toNat!)
  | _ => none
structure St where
  w : W
  names : List String := []
partial def loop (h : IO.FS.Stream) (s : St) : IO Unit := do
  let line ← h.getLine
  if line.isEmpty then return ()
  match (line.trimAscii.toString.splitOn " ").filter (· != "") with
  | ["reset"] => IO.println "ok"; loop h { w := { g := ZI.Graph2.init 0 } }
  | ["iface", i, bs, at_, tg, iv] =>
      let bases := (lst bs).map String.toNat!
      let attrs := attrsOf s.w (if bases.isEmpty then [0] else bases) at_
      let invs := (pairs iv).map fun p => (p.1.toNat!, p.2 == 1)
      IO.println "ok"
      loop h { w := newIface s.w i.toNat! (if bases.isEmpty then [0] else bases) attrs (pairs tg) invs,
               names := dedupS (s.names ++ attrs.map (·.1)) }
  | ["twin", i, _, at_, tg, iv] =>         -- a distinct interface object (equal name and module on the real side): a fresh node
      let attrs := attrsOf s.w [0] at_
      let invs := (pairs iv).map fun p => (p.1.toNat!, p.2 == 1)
      IO.println "ok"
      loop h { w := newIface s.w i.toNat! [0] attrs (pairs tg) invs,
               names := dedupS (s.names ++ attrs.map (·.1)) }
  | ["watch", _] => IO.println "ok"; loop h s      -- a dependent that queries from inside notifications: no effect on the model
  | ["set", i, bs] =>
      let bases := (lst bs).map String.toNat!
      IO.println "ok"; loop h { s with w := setBases s.w i.toNat! (if bases.isEmpty then [0] else bases) }
  | ["settag", i, t, v] => IO.println "ok"; loop h { s with w := setTag s.w i.toNat! t v.toNat! }
  | ["get", i, n] =>
      let (w, r) := get s.w i.toNat! n
      IO.println (match r with | some d => toString d | none => "N"); loop h { s with w := w }
  | ["q", i] =>
      let i := i.toNat!
      let (w, found) := (sortS s.names).foldl (fun (acc : W × List String) n =>
        let (w', r) := get acc.1 i n
        (w', match r with | some d => acc.2 ++ [s!"{n}={d}"] | none => acc.2)) (s.w, [])
      let tnames := sortS (dedupS (tagNames w i))
      let tvals := tnames.filterMap fun t => (queryTag w i t).map fun v => s!"{t}={v}"
      let (run, fails) := validateAll w i
      let first := match validateFirst w i with | some k => toString k | none => "-"
      let shw := fun (l : List Nat) => ",".intercalate (l.map toString)
      IO.println s!"A {",".intercalate found} | T {",".intercalate tvals} | V first={first} all={shw fails} run={shw run}"
      loop h { s with w := w }
  | _ => IO.println "bad"; loop h s
def main : IO Unit := do loop (← IO.getStdin) { w := { g := ZI.Graph2.init 0 } }
end Drv.Attrs
